#!/venv/bin/python -B
"""entry point:  run_check.py <Cnn> <quick|thorough> [--replay FILE]"""
import os
import sys

if os.environ.get('PYTHONHASHSEED') != '0':
    os.environ['PYTHONHASHSEED'] = '0'
    os.execv(sys.executable, [sys.executable, '-B'] + sys.argv)

sys.dont_write_bytecode = True
sys.path.insert(0, os.path.dirname(os.path.abspath(__file__)))
os.chdir(os.path.dirname(os.path.abspath(__file__)))

if os.environ.get('VERIF_DEBUG_HANG'):
    import faulthandler
    faulthandler.dump_traceback_later(int(os.environ['VERIF_DEBUG_HANG']), exit=True)

from vf.runner import main  # noqa: E402

if __name__ == '__main__':
    sys.exit(main(sys.argv[1:]))
