import sys, types, socket as rs
sys.dont_write_bytecode = True
sys.path.insert(0,'/repo')
from frappy.lib import generalConfig
generalConfig.testinit(omit_unchanged_within=0)
import frappy.lib.asynconn as ac, frappy.io as fio
from frappy.core import *
class Clock: t = 1000.0
sleeps = []
vt = types.SimpleNamespace(time=lambda: Clock.t, sleep=lambda d: (sleeps.append(d), setattr(Clock, 't', Clock.t + d)))
ac.time = vt; fio.time = vt
class Dev:
    def __init__(s): s.inbox = b''; s.sent = []; s.connects = []; s.refuse = 0; s.alive = True; s.mute=False
    def settimeout(s, t): pass
    def recv(s, n):
        if not s.alive: return b''
        if not s.inbox: Clock.t += 1.0; raise rs.timeout()
        d, s.inbox = s.inbox[:n], s.inbox[n:]; return d
    def sendall(s, d):
        if not s.alive: raise BrokenPipeError()
        s.sent.append((Clock.t, d))
        if not s.mute: s.inbox += b're:' + d
    def shutdown(s, h): pass
    def close(s): pass
dev = Dev()
def create_connection(addr, timeout=None):
    dev.connects.append(Clock.t)
    if dev.refuse: dev.refuse -= 1; raise ConnectionRefusedError('refused')
    dev.alive = True; dev.inbox = b''; return dev
fs = types.SimpleNamespace(**{k: getattr(rs, k) for k in dir(rs) if not k.startswith('__')}); fs.create_connection = create_connection
ac.socket = fs
ac.select = types.SimpleNamespace(select=lambda r, w, x, t: ([s for s in r if s.inbox or not s.alive], [], []))
class L:
    def debug(self,*a):pass
    info=warning=error=exception=log=debug
    handlers=[]
class Disp:
    def announce_update(s, m, p): pass
class Srv:
    def __init__(s): s.dispatcher=Disp(); s.secnode=types.SimpleNamespace(name='n')
def t(label, f):
    try: print(label, '->', repr(f()))
    except BaseException as e: print(label, 'RAISES', type(e).__name__, str(e)[:120])
io = StringIO('io', L(), {'description': 'd', 'uri': 'tcp://dev:1234', 'pollinterval': {'value': 10}}, Srv())
io.earlyInit(); io.initModule()
t('comm a', lambda: io.communicate('a'))
dev.inbox += b'late-garbage\n'
t('comm b after stale data', lambda: io.communicate('b'))
dev.mute = True
t('comm silent', lambda: (io.communicate('c'), Clock.t))
dev.mute = False
t('comm after silence', lambda: io.communicate('d'))
dev.alive = False
t('comm on dead', lambda: io.communicate('e'))
print('is_connected', io.is_connected)
dev.refuse = 5; dev.connects.clear()
for i in range(5):
    t(f'comm while refused {i}', lambda: io.communicate('f'))
    Clock.t += 1
print('connect attempts at', dev.connects, '(pollinterval 10)')
# multicomm delays
dev.sent.clear(); sleeps.clear()
t('multicomm', lambda: io.multicomm([('x', True, 0.5), ('y', True, 0.25), ('z', False, 0.125)]))
print('sleeps', sleeps, 'sent', dev.sent)
b = BytesIO('bio', L(), {'description': 'd', 'uri': 'tcp://dev:1234'}, Srv())
b.earlyInit(); b.initModule(); dev.mute=False
sleeps.clear()
t('bytes comm', lambda: b.communicate(b'ab', 5))
t('bytes multicomm', lambda: b.multicomm([(b'ab', 5, 0.5), (b'cd', 5, 0.25)]))
print('sleeps', sleeps)
t('bytes multicomm empty', lambda: b.multicomm([]))
