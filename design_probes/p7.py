# feasibility prototype: cooperative deterministic scheduler + virtual time driving frappy.client unmodified
import sys, types, json, threading, queue as realqueue, heapq, itertools
sys.dont_write_bytecode = True
sys.path.insert(0,'/repo')

class Deadlock(Exception): pass
class Sched:
    def __init__(self, choices):
        self.choices = list(choices); self.ci = 0
        self.threads = []; self.cur = None; self.now = 1000.0; self.steps = 0; self.trace = []
        self.mutex = threading.Lock()
    # --- thread mgmt
    def spawn(self, fn, *a, **k):
        t = DThread(self, fn, a, k); self.threads.append(t); t.start_real(); return t
    def current(self): return self.cur
    def runnable(self):
        return [t for t in self.threads if t.state == 'run']
    def pick(self, tag):
        self.steps += 1
        if self.steps > 200000: raise RuntimeError('step limit')
        r = self.runnable()
        if not r:
            timed = [t for t in self.threads if t.state == 'block' and t.deadline is not None]
            if not timed:
                if all(t.state == 'done' for t in self.threads): return None
                raise Deadlock([ (t.name, t.waiton) for t in self.threads if t.state=='block'])
            t = min(timed, key=lambda t: (t.deadline, t.ident))
            self.now = max(self.now, t.deadline); t.state = 'run'; t.timedout = True
            r = [t]
        if self.cur in r and self.ci >= len(self.choices):
            return self.cur  # default: keep running
        k = self.choices[self.ci] if self.ci < len(self.choices) else 0
        self.ci += 1
        return r[k % len(r)]
    def switch(self, tag):
        me = self.cur
        nxt = self.pick(tag)
        self.trace.append((me.name if me else None, tag))
        if nxt is me: return
        self.cur = nxt
        if nxt is not None: nxt.gate.release()
        if me is not None and me.state != 'done': me.gate.acquire()
    def yield_point(self, tag):
        if self.cur is None or threading.get_ident() != self.cur.real.ident: return
        self.switch(tag)
    def block(self, waiton, timeout=None):
        me = self.cur; me.state = 'block'; me.waiton = waiton; me.timedout = False
        me.deadline = None if timeout is None else self.now + timeout
        self.switch('block')
        return not me.timedout
    def wake(self, pred):
        for t in self.threads:
            if t.state == 'block' and pred(t.waiton): t.state = 'run'
    def run(self, mainfn):
        main = self.spawn(mainfn)
        # bootstrap: hand control to first thread
        self.cur = main; main.gate.release()
        for t in list(self.threads): pass
        while True:
            alive = [t for t in self.threads if t.real.is_alive()]
            if not alive: break
            alive[0].real.join(0.05)
        for t in self.threads:
            if t.exc: raise t.exc

class DThread:
    ids = itertools.count()
    def __init__(self, s, fn, a, k):
        self.s = s; self.fn = fn; self.a = a; self.k = k; self.ident = next(self.ids); self.name = f'T{self.ident}:{getattr(fn,"__name__","?")}'
        self.real = threading.Thread(target=self._boot, daemon=True); self.gate = threading.Semaphore(0); self.state = 'run'; self.waiton=None; self.deadline=None; self.exc=None; self.timedout=False
    def start_real(self):
        self.real.start()
    def _boot(self):
        self.gate.acquire()
        try: self.fn(*self.a, **self.k)
        except BaseException as e: self.exc = e
        finally:
            self.state = 'done'; self.s.wake(lambda w: w is self); 
            try: self.s.switch('exit')
            except BaseException as e: self.exc = self.exc or e
    def join(self, timeout=None):
        self.s.yield_point('join')
        if self.state != 'done': self.s.block(self, timeout)
    def is_alive(self): return self.state != 'done'

S = None
class DEvent:
    def __init__(self): self.flag=False
    def set(self): S.yield_point('ev.set'); self.flag=True; S.wake(lambda w: w is self)
    def clear(self): self.flag=False
    def is_set(self): return self.flag
    def wait(self, timeout=None):
        S.yield_point('ev.wait')
        if not self.flag: S.block(self, timeout)
        return self.flag
class DRLock:
    def __init__(self): self.owner=None; self.n=0
    def acquire(self, blocking=True, timeout=-1):
        S.yield_point('lock.acq')
        while self.owner not in (None, S.cur): S.block(self)
        self.owner=S.cur; self.n+=1; return True
    def release(self):
        self.n-=1
        if self.n==0: self.owner=None; S.wake(lambda w: w is self)
    __enter__=acquire
    def __exit__(self,*a): self.release()
class DQueue:
    def __init__(self, maxsize=0): self.items=[]; self.maxsize=maxsize
    def empty(self): return not self.items
    def put(self, item, block=True, timeout=None):
        S.yield_point('q.put')
        while self.maxsize and len(self.items)>=self.maxsize:
            if not block or not S.block(('notfull',self), timeout): raise realqueue.Full
        self.items.append(item); S.wake(lambda w: w==('notempty',self))
    def get(self, block=True, timeout=None):
        S.yield_point('q.get')
        while not self.items:
            if not block or not S.block(('notempty',self), timeout): raise realqueue.Empty
        it=self.items.pop(0); S.wake(lambda w: w==('notfull',self)); return it
fakequeue = types.SimpleNamespace(Queue=DQueue, Empty=realqueue.Empty, Full=realqueue.Full)
vtime = types.SimpleNamespace(time=lambda: S.now, sleep=lambda dt: S.block(None, dt), monotonic=lambda: S.now)

import socket as realsocket
class FakeSock:
    def __init__(self): self.inbox=[]; self.sent=[]; self.nread=0
    def settimeout(self,t): pass
    def recv(self, n):
        S.yield_point('sock.recv')
        if not self.inbox:
            if not S.block(('data',self), 1.0): raise realsocket.timeout()
        return self.inbox.pop(0)
    def sendall(self, d):
        S.yield_point('sock.send'); self.sent.append(d)
        for line in d.split(b'\n')[:-1]: self.peer(line)
    def push(self, d): self.inbox.append(d); S.wake(lambda w: w==('data',self))
    def shutdown(self, how): pass
    def close(self): pass
    def peer(self, line):
        if line == b'*IDN?': self.push(b'ISSE&SINE2020,SECoP,V2019-09-16,v1.0\n')
        elif line == b'describe': self.push(b'describing . ' + json.dumps({'modules': {'m': {'accessibles': {'value': {'datainfo': {'type':'double'}, 'readonly': True, 'description':'v'}}, 'description':'m'}}, 'equipment_id':'x','description':'d'}).encode() + b'\n')
        elif line == b'activate': self.push(b'update m:value [1.5, {"t": 1}]\nactive\n')
        elif line.startswith(b'read'): self.nread+=1; self.push(b'reply m:value [%d, {"t": 2}]\n' % self.nread)
        elif line.startswith(b'ping'): self.push(b'pong ' + line.split()[1] + b' [null, {}]\n')

import frappy.lib.asynconn as ac, frappy.client as cl
def run(choices):
    global S
    S = Sched(choices)
    fs = FakeSock()
    fakesocket = types.SimpleNamespace(**{k: getattr(realsocket,k) for k in dir(realsocket) if not k.startswith('__')})
    fakesocket.create_connection = lambda addr, timeout=None: fs
    ac.socket = fakesocket; ac.time = vtime
    ac.select = types.SimpleNamespace(select=lambda r,w,x,t: ([s for s in r if s.inbox],[],[]))
    cl.Event = DEvent; cl.RLock = DRLock; cl.queue = fakequeue; cl.time = vtime
    cl.SecopClient.__del__ = lambda self: None
    cl.mkthread = lambda fn,*a,**k: S.spawn(fn,*a,**k); cl.current_thread = lambda: S.cur
    res = {}
    def main():
        c = cl.SecopClient('tcp://dev:1234', log=None)
        c.connect()
        def caller(i):
            try: res[i] = c.request('read', 'm:value')[2][0]
            except Exception as e: res[i] = repr(e)
        ts = [S.spawn(caller, i) for i in range(3)]
        for t in ts: t.join()
        c.disconnect()
    S.run(main)
    return res, S.steps, S.now
import random, time, faulthandler; faulthandler.dump_traceback_later(8, exit=True)
t0=time.time()
outs = {}
for seed in range(200):
    rnd = random.Random(seed)
    ch = [rnd.randrange(4) for _ in range(rnd.randrange(0,120))]
    try:
        res, steps, now = run(ch)
    except Deadlock as e:
        res = ('DEADLOCK', str(e)[:80]); steps=now=0
    key = json.dumps(res, sort_keys=True, default=str)
    outs.setdefault(key, []).append(seed)
print('elapsed', time.time()-t0)
for k,v in outs.items(): print(len(v), k[:200])
# determinism
print(run([1,2,3,1,0,2]*10) == run([1,2,3,1,0,2]*10))
