import sys, json
sys.dont_write_bytecode = True
sys.path.insert(0,'/repo')
from frappy.client import SecopClient, CacheItem
from frappy.lib.asynconn import ConnectionClosed
desc = {'modules': {'m': {'accessibles': {
    'value': {'datainfo': {'type':'double'}, 'readonly': True, 'description':'v'},
    'target': {'datainfo': {'type':'double'}, 'readonly': False, 'description':'t'},
    '_e': {'datainfo': {'type':'enum', 'members': {'a':1,'b':2}}, 'readonly': False, 'description':'e'},
    '_sc': {'datainfo': {'type':'scaled', 'scale':0.1, 'min':0, 'max':100}, 'readonly': False, 'description':'e'},
    '_bl': {'datainfo': {'type':'blob', 'maxbytes':10}, 'readonly': False, 'description':'e'},
    }, 'description':'m'}}, 'equipment_id':'x','description':'d'}
class IO:
    def __init__(s, lines): s.lines = list(lines)
    def readline(s, timeout=None):
        if not s.lines: raise ConnectionClosed()
        return s.lines.pop(0)
    def shutdown(s): pass
    def disconnect(s): pass
errors=[]
c = SecopClient('tcp://x:1', log=None)
c.activate = False
c._init_descriptive_data(desc)
calls = []
c.register_callback(None, updateItem=lambda m,p,i: calls.append(('node', m, p, i.value, i.readerror)))
c.register_callback('m', updateItem=lambda m,p,i: calls.append(('mod', m, p, i.value)))
c.register_callback(('m','e'), updateItem=lambda m,p,i: calls.append(('par', m, p, i.value)))
c.register_callback(None, handleError=lambda e: errors.append(repr(e)[:80]))
c.io = IO([b'update m:value [1.5, {"t": 5}]', b'update m [2.5, {"t": 99999999999}]', b'changed m [3, {}]', b'update m:_e [2, {}]', b'garbage', b'update m:_e', b'update m:_e [7, {}]',
           b'error_update m:value ["HardwareError", "bad", {"t": 7}]', b'update m:nix [1, {}]', b'error_read m:value ["Disabled", "x", {}]', b'update m:_sc [15, {}]', b'update m:_bl ["AAEC", {}]'])
c._running = True; c._shutdown.set()
c._SecopClient__rxthread()
for k, v in c.cache.items(): print(k, repr(v))
print(calls[:6]); print(len(calls)); print(errors)
print(str(c.cache['m','e']), str(c.cache['m','sc']), str(c.cache['m','bl']))
for p in ('e','sc','bl'):
    dt = c.modules['m']['parameters'][p]['datatype']
    v = dt.from_string(str(c.cache['m',p]))
    try: print(p, repr(v), json.dumps(v))
    except Exception as e: print(p, repr(v), 'NOT JSON:', e)
