import sys, logging, json, io, contextlib
sys.dont_write_bytecode = True
sys.path.insert(0,'/repo')
import frappy.secnode
frappy.secnode.get_version = lambda *a: 'TEST'
from frappy.lib import generalConfig
from pathlib import Path
generalConfig.testinit(confdir=[Path('/repo/cfg')], logdir=Path('/tmp/probe/log'), piddir=Path('/tmp/probe/pid'))
from frappy.server import Server
from frappy.config import load_config
from frappy.logging import init_remote_logging
log = logging.getLogger('vf'); log.setLevel(logging.CRITICAL)
class Kit(Server):
    def __init__(self, node_cfg, module_cfg, testonly=True):
        self.log = log.getChild('node'); init_remote_logging(self.log)
        self.node_cfg = dict({'cls':'frappy.protocol.dispatcher.Dispatcher','equipment_id':'eq','description':'d'}, **node_cfg)
        self.module_cfg = module_cfg; self._testonly = testonly; self.name='kit'
import glob, os
for f in sorted(glob.glob('/repo/cfg/*_cfg.py')):
    name = os.path.basename(f)
    try:
        cfg = load_config([f], log)
        node = cfg.pop('node')
        k = Kit({'equipment_id': node['equipment_id'], 'description': node['description']}, cfg)
        err = io.StringIO()
        with contextlib.redirect_stderr(err), contextlib.redirect_stdout(io.StringIO()):
            k._processCfg()
        d = k.secnode.get_descriptive_data('')
        print('OK  ', name, len(d['modules']), 'modules')
    except SystemExit:
        print('EXIT', name, err.getvalue().strip().splitlines()[:2])
    except BaseException as e:
        print('FAIL', name, type(e).__name__, str(e)[:100])
