# prototype: C08 activation races under the cooperative scheduler (sync-op granularity)
import sys, types, json, threading, random, time as rtime, logging
sys.dont_write_bytecode = True
sys.path.insert(0,'/repo')
exec(open('p7.py').read().split("import frappy.lib.asynconn")[0].split("import socket as realsocket")[0])  # reuse Sched & primitives
import frappy.secnode
frappy.secnode.get_version = lambda *a: 'T'
from frappy.lib import generalConfig
generalConfig.testinit(omit_unchanged_within=0)
import frappy.modulebase as mb, frappy.protocol.dispatcher as dp
from frappy.core import *
from frappy.secnode import SecNode
from frappy.logging import init_remote_logging
log = logging.getLogger('vf12'); log.setLevel(logging.CRITICAL); init_remote_logging(log)

class DLockNR(DRLock): pass
fakethreading = types.SimpleNamespace(RLock=DRLock, Lock=DRLock, Event=DEvent)
mb.threading = fakethreading; dp.threading = fakethreading
mb.time = types.SimpleNamespace(time=lambda: S.now)
dp.currenttime = lambda: S.now

class M(Readable):
    p = Parameter('p', IntRange(), default=0)
class Srv:
    restart=shutdown=None
    def __init__(self):
        self.module_cfg = {'m': {'cls': M, 'description': 'x'}}
        self.log = log
        self.secnode = SecNode('n', log.getChild('sn'), {}, self)
        self.dispatcher = dp.Dispatcher('d', log.getChild('d'), {}, self)
        self.secnode.add_secnode_property('description','d')
class Conn:
    def __init__(self, i): self.i=i; self.log=[]
    def __hash__(self): return self.i
    def send_reply(self, msg):
        S.yield_point('conn.send')
        self.log.append(msg)

def run(choices):
    global S
    S = Sched(choices)
    out = {}
    def main():
        srv = Srv(); srv.secnode.create_modules(); srv.secnode.get_descriptive_data('')
        m = srv.secnode.modules['m']; d = srv.dispatcher
        c = Conn(1); d.add_connection(c)
        def client():
            r = d.handle_request(c, ('activate', None, None)); c.send_reply(r)
            S.yield_point('between')
            r = d.handle_request(c, ('deactivate', None, None)); c.send_reply(r)
        def driver():
            for v in (1,2,3):
                m.p = v
        ts = [S.spawn(client), S.spawn(driver)]
        for t in ts: t.join()
        out['log'] = c.log; out['final'] = m.p
    S.run(main)
    return out

stale = late = 0; N=3000; examples = {}
t0 = rtime.time()
for seed in range(N):
    rnd = random.Random(seed)
    ch = [rnd.randrange(3) for _ in range(rnd.randrange(0, 60))]
    o = run(ch)
    lg = o['log']
    acts = [m[0] for m in lg]
    ia = acts.index('active'); ii = acts.index('inactive')
    pvals = [m[2][0] for m in lg if m[0]=='update' and m[1]=='m:_p']
    # order violation: values for p must be non-decreasing (unique increasing driver values)
    if any(b < a for a,b in zip(pvals, pvals[1:])):
        stale += 1; examples.setdefault('stale', (seed, [(m[0], m[1], m[2] and m[2][0]) for m in lg if m[1] in ('m:_p', None)]))
    if any(m[0]=='update' for m in lg[ii+1:]):
        late += 1; examples.setdefault('late', (seed, [(m[0], m[1], m[2] and m[2][0]) for m in lg if m[1] in ('m:_p', None)]))
print('runs', N, 'elapsed', round(rtime.time()-t0,1), 'stale-order', stale, 'late-after-inactive', late)
for k,v in examples.items(): print(k, v)
