# prototype: poll thread in virtual time; empirically validate the C13 bounds claimed in DESIGN.md
import sys, random, types
sys.dont_write_bytecode = True
sys.path.insert(0,'/repo')
from frappy.lib import generalConfig
generalConfig.testinit(omit_unchanged_within=0)
import frappy.modulebase as mb
from frappy.core import *
from frappy.errors import *

class Stop(BaseException): pass
class Clock:
    def __init__(s): s.t = 1_000_000.0
    horizon = 1e99
    def time(s):
        s.t += 1e-6
        if s.t > s.horizon: raise Stop
        return s.t
CL = Clock()
mb.time = types.SimpleNamespace(time=lambda: CL.time())
class VEvent:
    def __init__(s, horizon): s.flag=False; s.horizon=horizon; s.timers=[]
    def set(s): s.flag=True
    def clear(s): s.flag=False
    def is_set(s): return s.flag
    def wait(s, timeout=None):
        if s.flag: return True
        target = CL.t + (timeout if timeout is not None else 1e9)
        # fire timers
        due = [x for x in s.timers if x[0] <= target]
        if due:
            x = min(due); s.timers.remove(x); CL.t = max(CL.t, x[0]); x[1](); return s.flag
        CL.t = target
        if CL.t > s.horizon: raise Stop
        return s.flag
class L:
    def debug(self,*a):pass
    info=warning=error=exception=debug
    handlers=[]
class Disp:
    def announce_update(s, m, p): pass
class Srv:
    def __init__(s): s.dispatcher=Disp(); s.secnode=None

def make_mod(name, rnd, log):
    nparams = rnd.randrange(0,4)
    attrs = {}
    durs = {}
    def mkread(pn, dur, failp, exc):
        def read(self):
            log.append((CL.t, name, 'read_'+pn))
            CL.t += dur
            if rnd.random() < failp: raise exc('x')
            return rnd.random() if rnd.random()<0.7 else 1.0
        return read
    excs = [HardwareError, SilentCommunicationFailedError, ValueError, CommunicationFailedError, ZeroDivisionError]
    for i in range(nparams):
        pn = f'p{i}'
        attrs[pn] = Parameter('x', FloatRange(), default=0)
        d = rnd.choice([0, 0.01, 0.3, 2.0]); durs[pn]=d
        attrs['read_'+pn] = mkread(pn, d, rnd.choice([0,0,0.3,1.0]), rnd.choice(excs))
    dv = rnd.choice([0,0.05,1.0,3.0]); ds = rnd.choice([0,0.05,0.5])
    attrs['read_value'] = mkread('value', dv, rnd.choice([0,0,0.5]), rnd.choice(excs))
    attrs['read_status'] = lambda self: (CL.__setattr__('t', CL.t+ds), (100,''))[1]
    def doPoll(self):
        log.append((CL.t, name, 'doPoll'))
        self.read_value(); self.read_status()
    attrs['doPoll'] = doPoll
    cls = type('C'+name, (Readable,), attrs)
    pi = rnd.choice([0.1, 0.5, 1, 5, 30]); si = rnd.choice([0.1, 1, 5, 15, 60])
    m = cls(name, L(), {'description':'', 'pollinterval': {'value': pi}, 'slowinterval': si}, Srv())
    m._durs = dict(durs, value=dv, status=ds); m._dpoll = dv+ds
    return m

worst_main = 0; worst_slow = 0; worst_excess = 0; we=None; worst_slow_si=0; wsi=None
for seed in range(1500):
    rnd = random.Random(seed)
    CL.t = 1_000_000.0 + rnd.random()*100
    log = []
    mods = [make_mod(f'm{i}', rnd, log) for i in range(rnd.randrange(1,5))]
    maxsi = max(m.slowinterval for m in mods)
    horizon = CL.t + 25*maxsi + 100
    owner = mods[0]
    ev = VEvent(horizon); CL.horizon = horizon
    for m in mods: m.earlyInit(); 
    owner.triggerPoll = ev
    try:
        owner._Module__pollThread(mods, lambda: None)
    except Stop: pass
    CL.horizon = 1e99
    S = sum(m._dpoll for m in mods) + max([d for m in mods for k,d in m._durs.items() if k not in ('status',)] + [0])
    nparam = sum(len(m.pollInfo.polled_parameters) for m in mods)
    for m in mods:
        starts = [t for (t,n,f) in log if n==m.name and f=='doPoll']
        gaps = [b-a for a,b in zip(starts, starts[1:])]
        bound = m.pollinterval + 2*S + 0.01
        if gaps and S > 0:
            ex = (max(gaps) - m.pollinterval)/S
            if ex > worst_excess: worst_excess = ex; we = (seed, m.name, max(gaps), m.pollinterval, S)
        if gaps:
            r = max(gaps)/bound; 
            if r > worst_main: worst_main = r; wm = (seed, m.name, max(gaps), m.pollinterval, S)
        for (mo, rf, po) in m.pollInfo.polled_parameters:
            ts = [t for (t,n,f) in log if n==m.name and f==rf.__name__]
            g = [b-a for a,b in zip(ts, ts[1:])]
            b2 = 3*m.slowinterval + 2*nparam*S + 0.01
            if g:
                q = (max(g) - 2*nparam*S)/m.slowinterval
                if q > worst_slow_si: worst_slow_si = q; wsi = (seed, m.name, max(g), m.slowinterval, S, nparam)
                r = max(g)/b2
                if r > worst_slow: worst_slow = r; ws=(seed, m.name, rf.__name__, max(g), m.slowinterval, S, nparam)
print('worst main ratio', worst_main, wm)
print('worst slow ratio', worst_slow, ws)

print('worst (gap-I)/S', worst_excess, we)
print('worst (slowgap-2nS)/SI', worst_slow_si, wsi)
