import json, sys, logging, threading
sys.path.insert(0,'/repo')
import frappy.secnode, frappy.protocol.discovery
frappy.secnode.get_version = lambda *a: 'TEST'
from frappy.lib import generalConfig
generalConfig.testinit(omit_unchanged_within=0)
from frappy.core import *
from frappy.datatypes import *
from frappy.secnode import SecNode
from frappy.protocol.dispatcher import Dispatcher
from frappy.protocol.interface.tcp import TCPRequestHandler
from frappy.logging import init_remote_logging

log = logging.getLogger('frappytest'); log.setLevel(logging.CRITICAL)
init_remote_logging(log)

class Srv:
    restart = shutdown = None
    def __init__(self, module_cfg):
        self.module_cfg = module_cfg
        self.log = log
        self.secnode = SecNode('node', log.getChild('secnode'), {'equipment_id':'eq'}, self)
        self.dispatcher = Dispatcher('d', log.getChild('dispatcher'), {}, self)
        self.secnode.add_secnode_property('description', 'desc')

class M(Writable):
    calls = []
    s = Parameter('struct', StructOf(a=IntRange(0,5), b=FloatRange(0,1)), readonly=False, default={'a':1,'b':0.5})
    arr = Parameter('arr', ArrayOf(IntRange(0,9),0,5), readonly=False, default=[1,2])
    hidden = Parameter('h', IntRange(), readonly=False, default=0, export=False)
    const = Parameter('c', IntRange(), constant=3)
    ro = Parameter('ro', IntRange(), default=1)
    sc = Parameter('sc', ScaledInteger(0.1, 0, 10), readonly=False, default=1)
    def write_s(self, v): self.calls.append(('s', v)); return v
    def write_arr(self, v): self.calls.append(('arr', v)); return v
    def write_target(self, v): self.calls.append(('target', v))
    def write_sc(self, v): self.calls.append(('sc', v)); return v
    def read_value(self): return 1.5
    @Command(TupleOf(IntRange(), StringType()), result=IntRange())
    def cmd(self, a, b):
        '''doc'''
        self.calls.append(('cmd', a, b)); return a
    @Command(StructOf(x=IntRange()), result=None)
    def scmd(self, x):
        '''doc'''
        self.calls.append(('scmd', x))

srv = Srv({'m': {'cls': M, 'description': 'x'}})
srv.secnode.create_modules(); print("ERRORS", srv.secnode.errors)
d = srv.secnode.get_descriptive_data('')
print(json.dumps(d)[:300])

class FakeSock:
    def __init__(self, chunks): self.chunks = list(chunks); self.out = b''
    def settimeout(self, t): pass
    def recv(self, n):
        if not self.chunks: return b''
        return self.chunks.pop(0)
    def sendall(self, d): self.out += d
    def shutdown(self, *a): pass
    def close(self): pass
class FakeServer:
    detailed_errors = False
    def __init__(self): self.log = log; self.dispatcher = srv.dispatcher

import io, contextlib
def run(data, chunk=None):
    s = FakeSock([data] if chunk is None else [data[i:i+chunk] for i in range(0,len(data),chunk)])
    buf = io.StringIO()
    with contextlib.redirect_stdout(buf):
        TCPRequestHandler(s, ('127.0.0.1', 1), FakeServer())
    return s.out

for req in [b'change m:_s {"a":2}\n', b'change m:_s {"a":null}\n', b'change m:_arr [1,2,3]\n', b'change m:_arr [1]\n', b'read m:_arr\n',
            b'change m:_arr "12"\n', b'change m:_sc "5"\n', b'change m:_sc 2.77\n',b'change m:_sc 27\n', b'change m:_hidden 1\n', b'change m:_const 3\n', b'read m:_const\n', b'change m:_ro 3\n',
            b'do m:_cmd [1,"x"]\n', b'do m:_cmd 5\n', b'do m:_cmd [1]\n', b'do m:_cmd\n', b'do m:_scmd {"x":null}\n', b'do m:_scmd {}\n', b'do m:stop 1\n',
            b'activate m:_nix\n', b'activate m:_cmd\n',b'activate m:_hidden\n', b'activate m:_arr\n', b'describe m:_s\n', b'read m:_cmd\n', b'change m:_cmd 1\n', b'do m:_arr\n', b'change m 5\n', b'read m\n', b'change m:target "5"\n', b'change m:target true\n', b'change m:target\n', b'change m:_arr\n']:
    M.calls.clear()
    out = run(req)
    print(req, '=>', out[:160], '...' if len(out)>160 else '', M.calls)
