import sys, json, logging
sys.dont_write_bytecode = True
sys.path.insert(0,'/repo')
from frappy.lib import generalConfig
generalConfig.testinit(omit_unchanged_within=0)
from frappy.core import *
from frappy.datatypes import *
from frappy.errors import *
from frappy.extparams import StructParam, FloatEnumParam
from frappy.mixins import HasControlledBy, HasOutputModule
class L:
    def debug(self,*a):pass
    info=warning=error=exception=debug
    handlers=[]
    def getChild(self,n): return self
class Disp:
    def __init__(s): s.upd=[]
    def announce_update(s, m, p): s.upd.append((m.name, p.name, p.value, p.readerror))
class SN:
    def __init__(s): s.modules={}
    def get_module(s, n): return s.modules[n]
class Srv:
    def __init__(s): s.dispatcher=Disp(); s.secnode=SN(); s.log=L()
def t(label, f):
    try: print(label, '->', repr(f()))
    except BaseException as e: print(label, 'RAISES', type(e).__name__, str(e)[:200])
def desc(m):
    return {n: a.for_export() for n, a in m.accessibles.items()}

# ---------- C09 isolation probes
class A(Writable):
    p = Parameter('p', FloatRange(0, 10, unit='K'), default=1, readonly=False)
    e = Parameter('e', EnumType('E', a=1, b=2), default=1, readonly=False)
    arr = Parameter('arr', ArrayOf(FloatRange(0, 1), 0, 3), default=[], readonly=False)
    s = Parameter('s', StructOf(x=IntRange(0, 5)), default={'x': 1}, readonly=False)
    @Command(IntRange(0, 3), result=IntRange(0, 3))
    def c(self, a):
        """c"""
        return a
def snap_cls(cls): return json.dumps({n: a.for_export() for n, a in cls.accessibles.items()}, sort_keys=True, default=str)
s0 = snap_cls(A)
class B(A):
    p = Parameter(max=5)
    e = 2
    arr = Parameter(maxlen=2)
print('A unchanged after defining B:', snap_cls(A) == s0)
srv = Srv()
a1 = A('a1', L(), {'description': 'd'}, srv)
d_a1 = json.dumps(desc(a1), sort_keys=True)
a2 = A('a2', L(), {'description': 'd', 'p': {'max': 3, 'unit': 'mK'}, 'arr': {'max': 0.5}, 's': {'value': {'x': 2}}}, srv)
print('A unchanged after configuring a2:', snap_cls(A) == s0, '| a1 unchanged:', json.dumps(desc(a1), sort_keys=True) == d_a1)
a2.parameters['p'].datatype.setProperty('min', -5)
a2.parameters['arr'].datatype.members.setProperty('max', 0.1)
a2.parameters['s'].datatype.members['x'].setProperty('max', 1)
a2.commands['c'].argument.setProperty('max', 1)
a2.commands['c'].datatype.argument.setProperty('min', 1)
print('after runtime mutation of a2: A unchanged:', snap_cls(A) == s0, '| a1 unchanged:', json.dumps(desc(a1), sort_keys=True) == d_a1)
a3 = A('a3', L(), {'description': 'd'}, srv)
print('fresh a3 == a1 description:', json.dumps(desc(a3), sort_keys=True) == d_a1)
b1 = B('b1', L(), {'description': 'd'}, srv)
print('b1 p max', b1.parameters['p'].datatype.max, 'unit', b1.parameters['p'].datatype.unit, 'e value', b1.e, 'arr maxlen', b1.parameters['arr'].datatype.maxlen)
# identity sharing
def ids(m): 
    out = {}
    for n, pobj in m.parameters.items():
        out[n] = id(pobj.datatype)
        for attr in ('members',):
            sub = getattr(pobj.datatype, attr, None)
            if isinstance(sub, DataType): out[n+'.members'] = id(sub)
            elif isinstance(sub, dict):
                for k, v in sub.items(): out[n+'.'+k] = id(v)
            elif isinstance(sub, tuple):
                for i, v in enumerate(sub): out[f'{n}.{i}'] = id(v)
        if hasattr(pobj.datatype, '_enum'): out[n+'._enum'] = id(pobj.datatype._enum)
    return out
i1, i3, ic = ids(a1), ids(a3), {n: id(p.datatype) for n, p in A.accessibles.items() if isinstance(p, Parameter)}
shared = [k for k in i1 if i1[k] == i3.get(k)]
print('datatype objects shared between a1 and a3:', shared)
print('shared between class A and a1:', [k for k in ic if ic[k] == i1.get(k)])
# status datatype / enum sharing
print('status enum shared a1/a3:', a1.parameters['status'].datatype.members[0]._enum is a3.parameters['status'].datatype.members[0]._enum)
# command argument sharing
print('cmd arg shared a1/a3:', a1.commands['c'].argument is a3.commands['c'].argument, '| datatype.argument is argument:', a1.commands['c'].datatype.argument is a1.commands['c'].argument)
# module property mutable values
print('features list shared:', a1.features is a3.features, a1.propertyValues is a3.propertyValues)

# ---------- C18 probes
class S1(Module):
    ctrl = StructParam('ctrl', {'p': Parameter('p', FloatRange(0, 10), default=1), 'i': Parameter('i', FloatRange(0, 10), default=2)}, prefix='pid_', readonly=False)
    hw = {'p': 1.0, 'i': 2.0}
    def read_pid_p(self): return self.hw['p']
    def read_pid_i(self): return self.hw['i']
    def write_pid_p(self, v): self.hw['p'] = v; return v
    def write_pid_i(self, v): self.hw['i'] = v; return v
m = S1('s1', L(), {'description': 'd'}, Srv())
def agree(m): return dict(m.ctrl) == {'p': m.pid_p, 'i': m.pid_i}, dict(m.ctrl), m.pid_p, m.pid_i
print('init', agree(m))
t('write member', lambda: (m.write_pid_p(3), agree(m)))
t('write struct', lambda: (m.write_ctrl({'p': 4, 'i': 5}), agree(m)))
t('assign member', lambda: (setattr(m, 'pid_i', 7), agree(m)))
t('assign struct', lambda: (setattr(m, 'ctrl', {'p': 8, 'i': 9}), agree(m)))
t('read struct', lambda: (m.read_ctrl(), agree(m)))
m.hw['p'] = 0.5
t('read member after hw change', lambda: (m.read_pid_p(), agree(m)))
class S2(Module):
    ctrl = StructParam('ctrl', {'p': Parameter('p', FloatRange(0, 10), default=1), 'i': Parameter('i', FloatRange(0, 10), default=2)}, prefix='pid_', readonly=False)
    hw = {'p': 1.0, 'i': 2.0}
    def read_ctrl(self): return dict(self.hw)
    def write_ctrl(self, v): self.hw = dict(v); return v
m = S2('s2', L(), {'description': 'd'}, Srv())
print('S2 init', agree(m))
t('S2 write member', lambda: (m.write_pid_p(3), agree(m), m.hw))
t('S2 write struct', lambda: (m.write_ctrl({'p': 4, 'i': 5}), agree(m)))
t('S2 assign member', lambda: (setattr(m, 'pid_i', 7), agree(m)))
t('S2 assign struct', lambda: (setattr(m, 'ctrl', {'p': 8, 'i': 9}), agree(m)))
m.hw = {'p': 0.1, 'i': 0.2}
t('S2 read member', lambda: (m.read_pid_p(), agree(m)))

class F(Module):
    vr = FloatEnumParam('range', ['500uV', '20mV', '1V'], 'V', readonly=False)
    def write_vr_idx(self, v): return v
f = F('f', L(), {'description': 'd'}, Srv())
print('F init', f.vr, f.vr_idx, f.parameters['vr'].datatype, f.parameters['vr_idx'].datatype)
for x in (0.0001, 0.01, 0.0102, 0.5, 0.6, 1, 5):
    t(f'F write {x}', lambda: (f.write_vr(x), f.vr, f.vr_idx, f.parameters['vr'].value))
t('F assign idx', lambda: (setattr(f, 'vr_idx', 0), f.vr, f.parameters['vr'].value))
