import sys, logging, json, os, io, contextlib, tempfile, shutil
sys.dont_write_bytecode = True
sys.path.insert(0,'/repo')
from pathlib import Path
import frappy.secnode, frappy.protocol.discovery as disc
frappy.secnode.get_version = disc.get_version = lambda *a: 'TEST'
from frappy.lib import generalConfig
tmp = Path(tempfile.mkdtemp())
generalConfig.testinit(logdir=tmp, omit_unchanged_within=0)
from frappy.core import *
from frappy.datatypes import *
from frappy.errors import *
def t(label, f):
    try: print(label, '->', repr(f()))
    except BaseException as e: print(label, 'RAISES', type(e).__name__, str(e)[:150])

class L:
    def debug(self,*a):pass
    info=warning=error=exception=debug
    handlers=[]
    def getChild(self,n): return self
class Disp:
    def __init__(s): s.upd=[]
    def announce_update(s, m, p): s.upd.append((p.name, p.value, p.readerror))
class SN: equipment_id='eq'; name='n'
class Srv:
    def __init__(s): s.dispatcher=Disp(); s.secnode=SN()

# C10 suspect
class M(Module):
    s = Parameter('s', StringType(), default='x', readonly=False)
    def write_s(self, v): return v
def c10():
    srv=Srv(); m = M('m', L(), {'description':'d', 's': {'value':'abcdef', 'maxchars':3}}, srv)
    return m.s, m.parameters['s'].readerror, m.writeDict
t('C10 Param(value=abcdef,maxchars=3)', c10)
def c10b():
    srv=Srv(); m = M('m', L(), {'description':'d', 's': {'maxchars':3, 'value':'abcdef'}}, srv)
    return m.s, m.parameters['s'].readerror, m.writeDict
t('C10 Param(maxchars=3,value=abcdef)', c10b)

# C03
t('enum{a:5}.compatible(IntRange(0,1))', lambda: EnumType(a=5).compatible(IntRange(0,1)))
t('Bool.compatible(IntRange(5,6))', lambda: BoolType().compatible(IntRange(5,6)))
t('enum.compatible(enum other names)', lambda: EnumType(a=1).compatible(EnumType(b=1)))
t('Float(0,10).compatible(Scaled(1,0,10))', lambda: FloatRange(0,10).compatible(ScaledInteger(1,0,10)))

# C17
class P(PersistentMixin, Module):
    a = PersistentParam('a', IntRange(0,100), default=1, readonly=False, persistent='auto')
    b = PersistentParam('b', StringType(), default='x', readonly=False)
def mk(): return P('p', L(), {'description':'d'}, Srv())
p = mk(); p.a = 5
print('file:', p.persistentFile.read_text().replace('\n',' '))
for content in ['[]', '5', 'null', '"x"', '{"a": "7"}', '{"a": 2.7}', '{"a": 1000}', '{"zz": 1}', '{"a": [1]}', '', '{"a": 5']:
    p.persistentFile.write_text(content)
    t(f'C17 load {content!r}', lambda: (mk().a))
# failed save not retried
p = mk(); p.a = 9
import frappy.persistent as pers
real_rename = os.rename
calls = {'n':0}
def bad_rename(a,b):
    calls['n']+=1
    if calls['n']==1: raise OSError('disk full')
    return real_rename(a,b)
os.rename = bad_rename
t('C17 save with failing rename', lambda: setattr(p,'a',10))
t('C17 save again', lambda: p.saveParameters())
os.rename = real_rename
print('on disk after retry:', p.persistentFile.read_text().replace('\n',' '), 'cache a=', p.a, 'rename calls', calls)

# C19
class FakeUDP:
    def __init__(self,*a): self.out=[]; self.inq=[]
    def setsockopt(self,*a):pass
    def bind(self,*a):pass
    def sendto(self,d,addr): self.out.append((d,addr))
    def recvfrom(self,n):
        if not self.inq: raise OSError('closed')
        return self.inq.pop(0), ('1.2.3.4', 5)
    def shutdown(self,*a):pass
    def close(self):pass
import socket as rs, types
fsock = FakeUDP()
disc.socket = types.SimpleNamespace(socket=lambda *a: fsock, AF_INET=rs.AF_INET, SOCK_DGRAM=rs.SOCK_DGRAM, SOL_SOCKET=rs.SOL_SOCKET, SO_REUSEPORT=rs.SO_REUSEPORT, SO_REUSEADDR=rs.SO_REUSEADDR, SO_BROADCAST=rs.SO_BROADCAST, error=rs.error)
def c19(datagrams):
    u = disc.UDPListener('eq', 'desc', ['tcp://1234'], L(), startup_broadcast=False)
    fsock.inq = list(datagrams) + [b'{"SECoP":"discover"}']; fsock.out=[]
    u.run(); return len(fsock.out)
for d in [b'{"SECoP":"discover"}', b'\xff\xfe', b'5', b'null', b'[]', b'"x"', b'{}', b'', b'{"SECoP": 5}']:
    t(f'C19 {d!r} then discover', lambda: c19([d]))
def c19len(desc, eq='eq'):
    u = disc.UDPListener(eq, desc, ['tcp://65535'], L(), startup_broadcast=False)
    return u.is_enabled, len(u._getMessage(65535)), len(u.description)
t('C19 500 newlines', lambda: c19len('\n'*500))
t('C19 500 a', lambda: c19len('a'*500))
t('C19 500 euro', lambda: c19len('€'*300))
t('C19 eq 430 + quotes desc', lambda: c19len('"'*40, 'e'*420))
t('C19 identity only', lambda: len(disc.UDPListener('e'*420, '', ['tcp://65535'], L(), startup_broadcast=False)._getMessage(65535)))

# C20 rotation
import frappy.logging as fl, mlzlog, time
d = tmp/'logs'
h = fl.LogfileHandler(str(d), 'root', max_days=3)
rec = logging.LogRecord('root', 20, '', 0, 'x', (), None); h.emit(rec)
base = Path(h.baseFilename).parent
for day in ['2020-01-01','2020-01-02','2020-01-03','2020-01-04','2020-01-05']:
    (base/f'root-{day}.log').write_text('x')
(base/'zzz-foreign.txt').write_text('f')
print('before', sorted(os.listdir(base)))
t('C20 rollover', lambda: h.doRollover())
print('after ', sorted(os.listdir(base)))
# critical record
from frappy.logging import RemoteLogHandler
rh = RemoteLogHandler(); rh.send_log = lambda *a: print('  sent', a[1:])
rh.set_conn_level('mod', 'c1', 'debug')
for lev in (10, 15, 20, 30, 40, 50, 25):
    t(f'C20 handle level {lev}', lambda: rh.handle(logging.LogRecord('x.mod', lev, '', 0, 'msg', (), None)))
shutil.rmtree(tmp)
