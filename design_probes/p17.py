import sys, logging, threading, time, io, contextlib
sys.dont_write_bytecode = True
sys.path.insert(0,'/repo')
import frappy.secnode
frappy.secnode.get_version = lambda *a: 'T'
from frappy.lib import generalConfig
generalConfig.testinit(omit_unchanged_within=0)
from frappy.server import Server
import frappy.server as fsrv
from frappy.lib.multievent import MultiEvent
from frappy.logging import init_remote_logging
from frappy.core import *
log = logging.getLogger('vf17'); log.setLevel(logging.CRITICAL); log.addHandler(logging.NullHandler()); log.propagate=False
EV = []; LK = threading.Lock()
def ev(*a):
    with LK: EV.append(a)
class Base(Readable):
    dep = Attached(mandatory=False)
    w = Parameter('w', IntRange(), default=0, readonly=False)
    touch = 'init'
    def earlyInit(self): ev('early', self.name); super().earlyInit()
    def initModule(self):
        ev('init', self.name)
        if self.dep: ev('see', self.name, self.dep.name, self.dep.initModuleDone)
        super().initModule()
    def startModule(self, se): ev('start', self.name); super().startModule(se)
    def shutdownModule(self): ev('shutdown', self.name)
    def write_w(self, v): ev('write_w', self.name, v); return v
    def read_value(self): ev('read_value', self.name); return 1
    def doPoll(self): ev('doPoll', self.name); super().doPoll()
class Kit(Server):
    def __init__(self, module_cfg, testonly=False):
        self.log = log.getChild('node'); init_remote_logging(self.log)
        self.node_cfg = {'cls':'frappy.protocol.dispatcher.Dispatcher','equipment_id':'eq','description':'d'}
        self.module_cfg = module_cfg; self._testonly = testonly; self.name='kit'
class ShortME(MultiEvent):
    def __init__(self, default_timeout=None): super().__init__(0.3)
fsrv.MultiEvent = ShortME
def run(cfg):
    EV.clear()
    k = Kit(cfg)
    err = io.StringIO()
    try:
        with contextlib.redirect_stderr(err): k._processCfg()
        ev('ready')
        time.sleep(0.05)
        k.secnode.shutdown_modules()
    except SystemExit:
        ev('EXIT', err.getvalue().strip()[:200])
    return list(EV)
for cfg in [
    {'a': {'cls': Base, 'description': 'a', 'dep': {'value': 'b'}, 'w': {'value': 5}}, 'b': {'cls': Base, 'description': 'b', 'dep': {'value': 'c'}}, 'c': {'cls': Base, 'description': 'c'}},
    {'a': {'cls': Base, 'description': 'a', 'dep': {'value': 'b'}}, 'b': {'cls': Base, 'description': 'b', 'dep': {'value': 'a'}}},
    {'a': {'cls': Base, 'description': 'a', 'dep': {'value': 'nix'}}},
    {'a': {'cls': Base, 'description': 'a', 'dep': {'value': 'a'}}},
]:
    t0 = time.time(); r = run(cfg)
    print(round(time.time()-t0, 2), [e for e in r if e[0] not in ('read_value',)][:40])
print(threading.active_count())
print('----')
for cfg in [
    {'a': {'cls': Base, 'description': 'a', 'dep': {'value': 'b'}}, 'b': {'cls': Base, 'description': 'b', 'dep': {'value': 'a'}}},
    {'a': {'cls': Base, 'description': 'a', 'dep': {'value': 'a'}}},
]:
    r = run(cfg)
    from collections import Counter
    print(len(r), Counter(e[0] for e in r), [e for e in r if e[0] in ('EXIT','ready','start','shutdown','see')][-12:])
