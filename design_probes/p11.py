# prototype: exhaustive op sequences on StateMachine with schedule-independent monitors (C14 a-d)
import sys, itertools
sys.dont_write_bytecode = True
sys.path.insert(0,'/repo')
from frappy.lib.statemachine import StateMachine, Retry, Finish, Start, Stop

import logging
NL = logging.getLogger('nl'); NL.addHandler(logging.NullHandler()); NL.propagate=False
def make_program(behav):
    """behav: dict name -> behaviour spec"""
    trace = []
    funcs = {}
    def mk(name, spec):
        def f(sm):
            trace.append(('call', name, sm.init, type(sm.cleanup_reason).__name__ if sm.cleanup_reason is not None else None, getattr(sm, 'tag', None)))
            kind = spec[0]
            if kind == 'retry': return Retry
            if kind == 'finish': return Finish
            if kind == 'goto': return funcs[spec[1]]
            if kind == 'garbage': return 5
            if kind == 'raise': raise ValueError(name)
            if kind == 'retry_then':
                if sm.init: return Retry
                return funcs[spec[1]]
        f.__name__ = name
        return f
    for n, s in behav.items(): funcs[n] = mk(n, s)
    return funcs, trace

def make_cleanup(kind, funcs, trace, label):
    if kind is None: return None
    def c(sm):
        trace.append(('cleanup', label, type(sm.cleanup_reason).__name__))
        if kind == 'none': return None
        if kind == 'raise': raise KeyError('c')
        if kind == 'garbage': return 7
        return funcs[kind]
    c.__name__ = 'cl_'+label
    return c

PROGRAMS = [
  dict(A=('retry',), B=('retry',), K=('retry_then','K2'), K2=('finish',)),
  dict(A=('retry_then','B'), B=('retry_then','A'), K=('raise',), K2=('finish',)),
  dict(A=('goto','A'), B=('retry',), K=('goto','K'), K2=('finish',)),      # infinite chains
  dict(A=('raise',), B=('garbage',), K=('retry',), K2=('finish',)),
  dict(A=('finish',), B=('retry_then','B'), K=('retry_then','K2'), K2=('goto','A')),
]
CLEANUPS = [None, 'none', 'raise', 'garbage', 'K']
OPS = ['cycle', 'startA', 'startB', 'stop']
nhist = 0; maxcalls = 0; problems = {}
for pi, prog in enumerate(PROGRAMS):
  for ck in CLEANUPS:
    for depth in range(1, 6):
      for ops in itertools.product(OPS, repeat=depth):
        funcs, trace = make_program(prog)
        trans = []
        sm = StateMachine(logger=NL, transition=lambda s, nf: trace.append(('trans', getattr(nf,'__name__',None))))
        sm.maxloops = 4
        nstart = 0
        requested = None  # latest request
        for op in list(ops) + ['cycle']*6:
            if op == 'cycle':
                n0 = len([e for e in trace if e[0] in ('call','cleanup')])
                trace.append(('cycle',))
                try:
                    sm.cycle()
                except Exception as e:
                    problems.setdefault(('raises', type(e).__name__), (pi, ck, ops))
                n = len([e for e in trace if e[0] in ('call','cleanup')]) - n0
                maxcalls = max(maxcalls, n)
                if n > 2*sm.maxloops + 2: problems.setdefault(('toomany', n), (pi, ck, ops))
            elif op == 'stop':
                sm.stop(); trace.append(('stop',)); requested = ('stop',)
            else:
                nstart += 1
                st = funcs[op[-1]]
                cl = make_cleanup(ck, funcs, trace, str(nstart))
                sm.start(st, cleanup=cl, tag=nstart); trace.append(('start', op[-1], nstart)); requested = ('start', op[-1], nstart)
        nhist += 1
        # (b) init flag: first call after a trans is init=True, others False
        expect_init = True
        for e in trace:
            if e[0] == 'trans': expect_init = True
            elif e[0] == 'call':
                if e[2] != expect_init: problems.setdefault(('init', e[1], e[2]), (pi, ck, ops)); 
                expect_init = False
        # (c) each cleanup label called at most once
        labels = [e[1] for e in trace if e[0]=='cleanup']
        if len(labels) != len(set(labels)): problems.setdefault(('cleanup twice',), (pi, ck, ops))
        # (d) final state after quiescence
        if requested == ('stop',) and prog and sm.is_active:
            problems.setdefault(('active after stop',), (pi, ck, ops))
        if requested and requested[0]=='start':
            # the last state entered via a start must be the latest requested, carrying tag
            calls = [e for e in trace if e[0]=='call']
            entered = [e for e in calls if e[4] == requested[2]]
            if not entered: problems.setdefault(('latest start never entered',), (pi, ck, ops))
            elif entered[0][1] != requested[1]: problems.setdefault(('entered wrong state', entered[0][1], requested[1]), (pi, ck, ops))
            # no call carries a tag of a superseded start after the latest start's first call
            idx = calls.index(entered[0]) if entered else len(calls)
            if any(e[4] != requested[2] for e in calls[idx:]): problems.setdefault(('old tag after latest',), (pi, ck, ops))
print('histories', nhist, 'max calls per cycle', maxcalls, 'maxloops=4')
for k,v in problems.items(): print('PROBLEM', k, v)
