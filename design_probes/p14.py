# prototype: C05 sequential emission model vs. implementation
import sys, random, types
sys.dont_write_bytecode = True
sys.path.insert(0,'/repo')
from frappy.lib import generalConfig
import frappy.modulebase as mb
from frappy.core import *
from frappy.errors import *
class Clock:
    t = 1000.0
mb.time = types.SimpleNamespace(time=lambda: Clock.t)
class L:
    def debug(self,*a):pass
    info=warning=error=exception=debug
    handlers=[]
class Disp:
    def __init__(s): s.upd=[]
    def announce_update(s, m, p): s.upd.append((p.name, ('err', type(p.readerror).__name__, p.readerror.args) if p.readerror else ('val', p.value)))
class Srv:
    def __init__(s): s.dispatcher=Disp(); s.secnode=None
mism = 0; total = 0; first=None
for seed in range(3000):
    rnd = random.Random(seed)
    omit = rnd.choice([None, 0, 0.1, 5])
    uu = rnd.choice(['default', 'always', 'never', 2.0])
    generalConfig.testinit(omit_unchanged_within=rnd.choice([0, 0.1, 1]))
    script = {}
    class M(Module):
        p = Parameter('p', IntRange(0, 100), default=0, readonly=False, update_unchanged=uu)
        def read_p(self):
            r = script['r']
            if isinstance(r, Exception): raise r
            return r
        def write_p(self, v):
            return script['w']
    cfg = {'description': 'd'}
    if omit is not None: cfg['omit_unchanged_within'] = omit
    srv = Srv()
    m = M('m', L(), cfg, srv)
    pobj = m.parameters['p']
    interval = pobj.omit_unchanged_within
    # model state from the actual initial state
    mv, me, mts = pobj.value, pobj.readerror, pobj.timestamp
    srv.dispatcher.upd.clear()
    expected = []
    def model_value(v):
        global mv, me, mts
        changed = (mv != v) or me is not None
        if not changed and Clock.t < (mts or 0) + interval:
            mv = v; return
        mv, me, mts = v, None, Clock.t
        expected.append(('p', ('val', v)))
    def model_error(e):
        global mv, me, mts
        if me is not None and type(me) is type(e) and me.args == e.args: return
        me, mts = e, Clock.t
        expected.append(('p', ('err', type(e).__name__, e.args)))
    ops = []
    for _ in range(rnd.randrange(1, 25)):
        k = rnd.choice(['readok', 'readerr', 'readbad', 'readexc', 'write', 'assign', 'assignbad', 'annerr', 'tick'])
        ops.append(k)
        if k == 'tick': Clock.t += rnd.choice([0.01, 0.2, 3, 10]); continue
        v = rnd.choice([0, 1, 1, 2, 3])
        try:
            if k == 'readok': script['r'] = v; m.read_p(); model_value(v)
            elif k == 'readerr': e = HardwareError(rnd.choice(['a', 'b'])); script['r'] = e; model_error(e); m.read_p()
            elif k == 'readexc': e = ValueError('x'); script['r'] = e; model_error(InternalError('ValueError: x')); m.read_p()
            elif k == 'readbad': script['r'] = 'str'; model_error(WrongTypeError("can not convert 'str' to an int")); m.read_p()
            elif k == 'write': script['w'] = rnd.choice([None, v, v]); m.write_p(v); model_value(v)
            elif k == 'assign': m.p = v; model_value(v)
            elif k == 'assignbad': model_error(WrongTypeError("can not convert 'x' to an int")); m.p = 'x'
            elif k == 'annerr': e = CommunicationFailedError('c'); model_error(e); m.announceUpdate('p', err=e)
        except Exception as ex:
            pass
    total += 1
    got = srv.dispatcher.upd
    final_ok = (('val', pobj.value) if not pobj.readerror else ('err', type(pobj.readerror).__name__, pobj.readerror.args)) == ((got[-1][1]) if got else None) or not got
    if got != expected or not final_ok:
        mism += 1
        if first is None: first = (seed, uu, omit, interval, ops, got, expected)
print('histories', total, 'mismatches', mism)
if first: 
    print(first[:5]); print('got     ', first[5]); print('expected', first[6])
