#!/bin/sh
# usage: tools/run_all.sh [tier] [seed ...]   - every registered check on /repo, one summary line each (evidence goes to a scratch dir
# unless KEEP_EVIDENCE=1)
TIER=${1:-quick}; shift
V=$(cd "$(dirname "$0")/.." && pwd); cd "$V"
for SEED in ${@:-1}; do
  for n in 01 02 03 04 05 06 07 08 09 10 11 12 13 14 15 16 17 18 19 20; do
    if [ -z "$KEEP_EVIDENCE" ]; then D=$(mktemp -d /tmp/vfall.XXXXXX); export VERIF_EVIDENCE_DIR=$D; fi
    VERIF_SEED=$SEED timeout -k 5 ${ALL_TIMEOUT:-3600} /venv/bin/python -B run_check.py C$n $TIER > /tmp/vfall.out 2>&1 < /dev/null
    RC=$?
    echo "rc=$RC $(grep -c '^VIOLATION' /tmp/vfall.out) viol | $(grep ' seed=' /tmp/vfall.out | tail -1)"
    [ $RC -ne 0 ] && grep -v '^  detail' /tmp/vfall.out | grep 'VIOLATION\|signature\|HARNESS\|Error' | head -6
    [ -z "$KEEP_EVIDENCE" ] && rm -rf "$D"
  done
done
