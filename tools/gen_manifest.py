#!/usr/bin/env python3
"""writes MANIFEST.json from the table below (kept in one place so that it stays valid)"""
import json
import os

HERE = os.path.dirname(os.path.dirname(os.path.abspath(__file__)))

CHECKS = {
    # id: (level, technique, level text, level note, design ref)
    'C01': ('exploration',
            'property-based testing: Hypothesis-generated datatype trees x deterministic boundary/kind catalogues, '
            'three-valued independent reference model as oracle, exhaustive leaf x limit x candidate matrix',
            'Generated search over (datatype tree, candidate, previous value) against an independent reference model of the '
            'SECoP value sets: soundness, fidelity, rejection, totality and idempotence are evaluated for every case on the '
            'wire path and the driver path. The leaf-kind x limit-catalogue x candidate matrix is enumerated completely; '
            'nested trees are sampled.',
            'trusts vf/refmodel.py (written from the SECoP datainfo semantics and frappy docstrings); bounded search, no absence claim',
            'DESIGN.md section 4 C01'),
}

NOT_APPLICABLE = {
}


def main():
    with open(os.path.join(HERE, 'properties.jsonl'), encoding='utf-8') as f:
        ids = [json.loads(line)['id'] for line in f if line.strip()]
    checks = []
    for pid in ids:
        if pid not in CHECKS:
            continue
        level, technique, text, note, ref = CHECKS[pid]
        checks.append({
            'property_id': pid,
            'quick_cmd': f'/venv/bin/python -B run_check.py {pid} quick',
            'thorough_cmd': f'/venv/bin/python -B run_check.py {pid} thorough',
            'replay_cmd_template': f'/venv/bin/python -B run_check.py {pid} quick --replay {{path}}',
            'evidence_file': f'evidence/{pid}.json',
            'engine': 'vf',
            'level_claimed': {'category': level, 'text': text, 'design_ref': ref},
            'level_note': note,
            'technique': technique,
        })
    na = [{'property_id': pid, 'reason': NOT_APPLICABLE.get(pid, 'check not built yet (work in progress, see DESIGN.md section 2.7)')}
          for pid in ids if pid not in CHECKS]
    manifest = {
        'version': 1,
        'setup_cmd': 'sh tools/setup.sh',
        'hooks': {
            'guard': 'FRAPPY_VERIF',
            'enable': 'no source hooks are needed: the checks import frappy from /repo and re-bind module globals from outside',
            'baseline_off_cmd': 'cd /repo && /venv/bin/python -m pytest -ra -q -p no:cacheprovider --timeout=900 --continue-on-collection-errors',
            'source_commits': [],
            'add_only': True,
        },
        'engines': [{'name': 'vf', 'path': 'vf/', 'serves_properties': [c['property_id'] for c in checks],
                     'kind_free_text': 'Hypothesis property-based testing + exhaustive enumeration of small finite spaces, '
                                       'sharded over 16 processes; collect-bucket-shrink runner (vf/runner.py)'}],
        'checks': checks,
        'not_applicable': na,
        'notes': 'run_check.py <id> <tier> [--replay file]; known/fixed findings in known_findings.json; see DESIGN.md',
    }
    with open(os.path.join(HERE, 'MANIFEST.json'), 'w', encoding='utf-8') as f:
        json.dump(manifest, f, indent=1)
        f.write('\n')


if __name__ == '__main__':
    main()
