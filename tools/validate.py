#!/usr/bin/env python3
"""validate MANIFEST.json and evidence/*.json against the schemas (run with python3-vt: needs jsonschema)"""
import glob
import json
import sys
import jsonschema

ok = True
def check(path, schema):
    global ok
    try:
        jsonschema.validate(json.load(open(path)), json.load(open(schema)))
        print('valid  ', path)
    except Exception as e:
        ok = False
        print('INVALID', path, str(e)[:300])

check('/verif/MANIFEST.json', '/root/.vp/MANIFEST.schema.json')
for p in sorted(glob.glob('/verif/evidence/*.json')):
    check(p, '/root/.vp/EVIDENCE.schema.json')
sys.exit(0 if ok else 1)
