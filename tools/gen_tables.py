#!/usr/bin/env python3
"""prints markdown tables for DESIGN.md section 7 from known_findings.json, mutants/ and seeded/"""
import json, os, glob, subprocess
V = os.path.dirname(os.path.dirname(os.path.abspath(__file__)))
kf = json.load(open(os.path.join(V, 'known_findings.json')))['findings']
print('| Prop | Status | Commit / signature | What failed |\n|---|---|---|---|')
for e in kf:
    if e['status'] == 'fixed':
        print(f"| {e['property']} | fixed | `{e['commit']}` | {e['what']} |")
    else:
        print(f"| {e['property']} | **known** | `{e['signature']}` | {e['what']} |")
print()
print('| Mutant (mutants/*.diff) | Property | File changed |\n|---|---|---|')
for p in sorted(glob.glob(os.path.join(V, 'mutants', '*.diff'))):
    name = os.path.basename(p)[:-5]
    files = [l[6:].strip() for l in open(p) if l.startswith('+++ b/')]
    print(f"| {name} | {name.split('-')[0]} | {', '.join(files)} |")
print()
print('| Seed (seeded/<id>/) | What was changed | Needs to manifest | Reported by (quick, seed 1) |\n|---|---|---|---|')
for p in sorted(glob.glob(os.path.join(V, 'seeded', '*', 'meta.json'))):
    m = json.load(open(p))
    sid = os.path.basename(os.path.dirname(p))
    runs = []
    for chk, r in sorted(m.get('checks_run', {}).items()):
        sig = (r['signatures'] or ['-'])[0].split(' (')[0]
        runs.append(f"{chk.split()[0]}: `{sig}`" if r['exit'] == 1 else f"{chk.split()[0]}: not reported")
    if m.get('obsolete'):
        runs.append(f"*{m['obsolete']}*")
    cut = lambda t, n: (t[:n].rsplit(' ', 1)[0] + ' ...') if len(t) > n else t
    print(f"| {sid} | {cut(m.get('summary', ''), 260)} | {cut(m.get('needs', ''), 200)} | {'; '.join(runs)} |".replace('\n', ' '))
