#!/bin/sh
# offline set-up after a fresh restore: hypothesis into /venv (no-op if present)
/venv/bin/python -c "import hypothesis" 2>/dev/null || \
  /venv/bin/pip install --no-index --find-links /opt/veriftools/wheels hypothesis
/venv/bin/python -c "import hypothesis; print('hypothesis', hypothesis.__version__)"
