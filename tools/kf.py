#!/usr/bin/env python3
"""helper to add entries to known_findings.json (edit time only, never used by checks)
usage: kf.py fixed <prop> <commit> <signature-prefix-or-list,comma> <what>
       kf.py known <prop> <signature> <what>"""
import json, os, sys
P = os.path.join(os.path.dirname(os.path.dirname(os.path.abspath(__file__))), 'known_findings.json')
d = json.load(open(P)) if os.path.exists(P) else {'comment': 'status known: suppresses exactly this signature (printed as KNOWN-FINDING); status fixed: suppresses nothing, kept as a record', 'findings': []}
kind, prop = sys.argv[1], sys.argv[2]
if kind == 'fixed':
    commit, sigs, what = sys.argv[3], sys.argv[4], sys.argv[5]
    d['findings'].append({'property': prop, 'status': 'fixed', 'commit': commit, 'signatures': sigs.split(','),
                          'what': what, 'line': f'fixed: property={prop} {commit} {what}'})
else:
    sig, what = sys.argv[3], sys.argv[4]
    e = {'property': prop, 'status': 'known', 'signature': sig, 'what': what}
    if len(sys.argv) > 5:
        e['example'] = json.loads(sys.argv[5])
    d['findings'].append(e)
json.dump(d, open(P, 'w'), indent=1)
