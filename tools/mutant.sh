#!/bin/sh
# usage: tools/mutant.sh <name> <Cnn> <file-in-repo> <python-expr-old> <python-expr-new>
# creates mutants/<name>.diff (old -> new replacement, must match exactly once) and runs the quick check against it
set -e
NAME=$1; PROP=$2; FILE=$3; OLD=$4; NEW=$5
WT=$(mktemp -d /tmp/vfmut.XXXXXX)
git -C /repo worktree add -q --detach "$WT" HEAD
trap 'git -C /repo worktree remove --force "$WT" >/dev/null 2>&1; rm -rf "$WT"' EXIT
python3 - "$WT/$FILE" "$OLD" "$NEW" <<'PY'
import sys
p, old, new = sys.argv[1:4]
s = open(p).read()
assert s.count(old) == 1, f'{s.count(old)} matches for {old!r}'
open(p, 'w').write(s.replace(old, new))
PY
cd "$(dirname "$0")/.."
git -C "$WT" diff > "mutants/$NAME.diff"
VERIF_REPO="$WT" VERIF_EVIDENCE_DIR="$WT/.evidence" timeout -k 5 ${MUT_TIMEOUT:-900} /venv/bin/python -B run_check.py "$PROP" quick > "$WT/.out" 2>&1 < /dev/null || true
grep -v "^  detail" "$WT/.out" | grep "VIOLATION\|signature\|HARNESS\|INCONCLUSIVE\|quick seed" | cut -c1-220 | head -${LINES_OUT:-6}
