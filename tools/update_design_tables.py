#!/usr/bin/env python3
"""replaces the generated tables of DESIGN.md (between the <!-- X_TABLE_BEGIN/END --> markers) by the output of gen_tables.py"""
import os, re, subprocess, sys
V = os.path.dirname(os.path.dirname(os.path.abspath(__file__)))
out = subprocess.run([sys.executable, os.path.join(V, 'tools', 'gen_tables.py')], capture_output=True, text=True, check=True).stdout
tables = [t.strip('\n') for t in out.split('\n\n') if t.strip()]
assert len(tables) == 3, len(tables)
p = os.path.join(V, 'DESIGN.md')
s = open(p).read()
for name, table in zip(('FINDINGS', 'MUTANT', 'SEEDED'), tables):
    s, n = re.subn(rf'(<!-- {name}_TABLE_BEGIN -->\n).*?(\n<!-- {name}_TABLE_END -->)', lambda m: m.group(1) + table + m.group(2), s, flags=re.S)
    assert n == 1, name
open(p, 'w').write(s)
print('tables updated:', [len(t.split('\n')) - 2 for t in tables], 'rows')
