#!/bin/sh
# usage: tools/seed_eval.sh <Cnn> <name> [tier] [check-Cnn]
# confirms a seeded change from /tmp/seed_<Cnn>/_seed/<name> (tests pass, demo fails with / passes without the patch)
# in a fresh scratch worktree, runs the check against it and files it under /verif/seeded/<Cnn>-<name>/
PROP=$1; NAME=$2; TIER=${3:-quick}; CHECK=${4:-$PROP}
V=$(cd "$(dirname "$0")/.." && pwd)
SRC=/tmp/seed_$PROP/_seed/$NAME
[ -d "$SRC" ] || SRC=$(ls -d /tmp/seed[23456]_*/_seed/$PROP-$NAME 2>/dev/null | head -1)     # second round
[ -n "$SRC" ] && [ -d "$SRC" ] || SRC=$V/seeded/$PROP-$NAME     # re-evaluation of a seed already filed
WT=$(mktemp -d /tmp/vfseed.XXXXXX)
git -C /repo worktree add -q --detach "$WT" HEAD
trap 'git -C /repo worktree remove --force "$WT" >/dev/null 2>&1; rm -rf "$WT"' EXIT
mkdir -p "$WT/_seed"; cp -r "$SRC" "$WT/_seed/$NAME"
cd "$WT"
( timeout 120 /venv/bin/python _seed/$NAME/demo.py > .demo_clean 2>&1; echo $? > .rc_clean ) < /dev/null
if ! git apply "_seed/$NAME/patch.diff" 2>.apply_err; then echo "PATCH DOES NOT APPLY: $(head -2 .apply_err)"; exit 3; fi
( timeout 120 /venv/bin/python _seed/$NAME/demo.py > .demo_patched 2>&1; echo $? > .rc_patched ) < /dev/null
TESTS=$(/venv/bin/python -m pytest -q -p no:cacheprovider test 2>&1 | tail -1)
echo "demo clean rc=$(cat .rc_clean)  demo patched rc=$(cat .rc_patched)  tests: $TESTS"
cd "$V"
VERIF_REPO="$WT" VERIF_EVIDENCE_DIR="$WT/.evidence" timeout -k 5 ${MUT_TIMEOUT:-1800} /venv/bin/python -B run_check.py "$CHECK" "$TIER" > "$WT/.out" 2>&1 < /dev/null
RC=$?
grep -v "^  detail" "$WT/.out" | grep "VIOLATION\|signature\|HARNESS\|INCONCLUSIVE\| seed=" | cut -c1-230 | head -${LINES_OUT:-5}
D="$V/seeded/$PROP-$NAME"; mkdir -p "$D"
[ "$SRC" = "$D" ] || cp "$SRC"/*.py "$SRC/patch.diff" "$D/"
python3 - "$SRC/meta.json" "$D/meta.json" "$(cat $WT/.rc_clean)" "$(cat $WT/.rc_patched)" "$TESTS" "$CHECK $TIER" "$RC" "$(grep -m3 'signature:' $WT/.out | sed 's/ *signature: //' | tr '\n' ';')" <<'PY'
import json, sys
src, dst, rc_clean, rc_patched, tests, check, rc, sigs = sys.argv[1:9]
import os
old = json.load(open(dst)) if os.path.exists(dst) else {}
m = json.load(open(src))
m['checks_run'] = old.get('checks_run', {})
m['confirmed'] = {'demo_on_clean_tree_rc': int(rc_clean), 'demo_with_patch_rc': int(rc_patched), 'pytest_with_patch': tests}
m.setdefault('checks_run', {})[check] = {'exit': int(rc), 'signatures': [s for s in sigs.split(';') if s]}
json.dump(m, open(dst, 'w'), indent=1)
PY
