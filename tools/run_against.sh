#!/bin/sh
# usage: tools/run_against.sh <patch.diff> <Cnn> [tier] [seed]
# runs a check against a scratch worktree of /repo's HEAD with the patch applied (never touches /repo)
set -e
PATCH=$(readlink -f "$1"); PROP=$2; TIER=${3:-quick}; SEED=${4:-1}
WT=$(mktemp -d /tmp/vfwt.XXXXXX)
git -C /repo worktree add -q --detach "$WT" HEAD
trap 'git -C /repo worktree remove --force "$WT" >/dev/null 2>&1; rm -rf "$WT"' EXIT
git -C "$WT" apply "$PATCH"
cd "$(dirname "$0")/.."
set +e
VERIF_REPO="$WT" VERIF_SEED=$SEED VERIF_EVIDENCE_DIR="$WT/.evidence" timeout -k 5 ${MUT_TIMEOUT:-1800} /venv/bin/python -B run_check.py "$PROP" "$TIER" > "$WT/.out" 2>&1 < /dev/null
grep -v "^  " "$WT/.out" | cut -c1-300 | tail -${LINES_OUT:-8}
# the replay files of this run are kept for inspection (scratch only, nothing registered depends on it)
rm -rf /tmp/last_replays; mkdir -p /tmp/last_replays; cp "$WT"/.evidence/replays/* /tmp/last_replays/ 2>/dev/null || true
