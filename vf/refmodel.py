"""independent reference semantics of SECoP datatypes (never imports frappy)

A datatype is a JSON-able *spec*:
  {'k':'double','min':x|None,'max':x|None,'abs':a,'rel':r}
  {'k':'int','min':i,'max':i}
  {'k':'scaled','scale':s,'lo':i,'hi':i}              limits in grid units: min = lo*s
  {'k':'bool'}  {'k':'enum','members':{name:code}}
  {'k':'string','min':i,'max':i|None,'utf8':bool}     {'k':'blob','min':i,'max':i}
  {'k':'array','of':T,'min':i,'max':i}  {'k':'tuple','of':[T..]}
  {'k':'struct','members':{name:T},'optional':[names]}

Candidate values are what json.loads delivers (side='wire') or what a driver hands over
(side='drv': additionally bytes, and scaled values are the physical floats).

status(T, x, side) is three valued:
  'A'  must be accepted
  'R'  must be rejected with a bad-value error
  'E'  documented leniency / numerically ambiguous: either is fine, but if accepted the
       result has to be sound and to denote the offered value
"""
import math
import base64
import binascii
import re

FMAX = 1.7976931348623157e308
BAND = 1e-6          # relative half-width of the "ambiguous" band around the tolerance
B64 = re.compile(r'(?:[A-Za-z0-9+/]{4})*(?:[A-Za-z0-9+/]{2}==|[A-Za-z0-9+/]{3}=)?\Z')


def isnum(x):
    return isinstance(x, (int, float)) and not isinstance(x, bool)


def finite(x):
    return isinstance(x, int) or (x == x and abs(x) != math.inf)


def dlimits(T):
    lo = -FMAX if T.get('min') is None else T['min']
    hi = FMAX if T.get('max') is None else T['max']
    return lo, hi


def dtol(T, x):
    return max(abs(x) * T.get('rel', 1.2e-7), T.get('abs', 0.0))


def combine(stats):
    best = 'A'
    for s in stats:
        if s[0] == 'R':
            return s
        if s[0] == 'E' and best == 'A':
            best = s
    return best if isinstance(best, tuple) else ('A', '')


def status(T, x, side='wire'):
    """-> (verdict, reason)  reason is categorical (used in finding signatures)"""
    k = T['k']
    if k == 'double':
        if isinstance(x, bool):
            return 'E', 'bool-as-number'
        if not isnum(x):
            return 'R', 'nonnumber-for-double'
        if x != x:
            return 'R', 'nan'
        if isinstance(x, float) and abs(x) == math.inf:
            return 'E', 'inf-for-double'
        if isinstance(x, int) and abs(x) > 10 ** 308:
            return 'R', 'huge-int'
        lo, hi = dlimits(T)
        x = float(x)
        if lo <= x <= hi:
            return 'A', ''
        tol = dtol(T, x)
        dist = lo - x if x < lo else x - hi
        if dist > tol * (1 + BAND) + 5e-324:
            return 'R', 'outside-limits'
        return 'E', 'tolerance-zone'
    if k == 'int':
        if isinstance(x, bool):
            return 'E', 'bool-as-number'
        if not isnum(x):
            return 'R', 'nonnumber-for-int'
        if isinstance(x, float):
            if not finite(x) or x != math.floor(x):
                return 'R', 'fraction-for-int'
            return ('E', 'whole-float-for-int') if T['min'] <= x <= T['max'] else ('R', 'outside-limits')
        return ('A', '') if T['min'] <= x <= T['max'] else ('R', 'outside-limits')
    if k == 'scaled':
        if isinstance(x, bool):
            return 'E', 'bool-as-number'
        if not isnum(x):
            return 'R', 'nonnumber-for-scaled'
        if not finite(x):
            return 'R', 'nonfinite-for-scaled'
        if side == 'wire':
            if isinstance(x, float):
                if x != math.floor(x):
                    return 'R', 'fraction-for-scaled'
                n = int(x)
                why = ('E', 'whole-float-for-int')
            else:
                n, why = x, ('A', '')
            if T['lo'] <= n <= T['hi']:
                return why
            if T['lo'] - 1 <= n <= T['hi'] + 1:
                return 'E', 'one-step-outside'
            return 'R', 'outside-limits'
        # driver side: physical value, rounded to the grid
        s = T['scale']
        lo, hi = T['lo'] * s, T['hi'] * s
        if isinstance(x, int) and abs(x) > 10 ** 300:
            return 'R', 'huge-int'
        x = float(x)
        if lo <= x <= hi:
            return 'A', ''
        dist = lo - x if x < lo else x - hi
        if dist > s * (1 + BAND):
            return 'R', 'outside-limits'
        return 'E', 'one-step-outside'
    if k == 'bool':
        if isinstance(x, bool):
            return 'A', ''
        if isnum(x) and x in (0, 1):
            return 'E', 'number-as-bool'
        return 'R', 'nonbool-for-bool'
    if k == 'enum':
        codes = set(T['members'].values())
        if isinstance(x, dict) and '$foreign_member' in x:
            # (driver side) a member object of an other enumeration: counts by its code, if at all
            return ('E', 'foreign-member') if x['$foreign_member'][1] in codes else ('R', 'nonmember')
        if isinstance(x, bool):
            return ('E', 'bool-as-number') if int(x) in codes else ('R', 'nonmember')
        if isinstance(x, int):
            return ('A', '') if x in codes else ('R', 'nonmember')
        if isinstance(x, float):
            if finite(x) and x == math.floor(x) and int(x) in codes:
                return 'E', 'whole-float-for-int'
            return 'R', 'nonmember'
        if isinstance(x, str):
            return ('E', 'enum-name') if x in T['members'] else ('R', 'nonmember')
        return 'R', 'nonscalar-for-enum'
    if k == 'string':
        if not isinstance(x, str):
            return 'R', 'nonstring-for-string'
        if not T.get('utf8') and not x.isascii():
            return 'R', 'nonascii'
        if '\0' in x:
            return 'R', 'nul-in-string'
        n = len(x)
        if n < T['min'] or (T.get('max') is not None and n > T['max']):
            return 'R', 'length'
        return 'A', ''
    if k == 'blob':
        if side == 'wire':
            if not isinstance(x, str):
                return 'R', 'nonstring-for-blob'
            if not B64.match(x):
                if B64.match(b64_lenient(x)):
                    return 'E', 'whitespace-or-excess-padding-in-base64'
                return 'R', 'bad-base64'
            n = len(base64.b64decode(x, validate=True))
        else:
            if not isinstance(x, bytes):
                return 'R', 'nonbytes-for-blob'
            n = len(x)
        return ('A', '') if T['min'] <= n <= T['max'] else ('R', 'length')
    if k == 'array':
        if not isinstance(x, (list, tuple)):
            return 'R', f'{jkind(x)}-for-array'
        if not T['min'] <= len(x) <= T['max']:
            return 'R', 'length'
        return combine(status(T['of'], e, side) for e in x)
    if k == 'tuple':
        if not isinstance(x, (list, tuple)):
            return 'R', f'{jkind(x)}-for-tuple'
        if len(x) != len(T['of']):
            return 'R', 'length'
        return combine(status(t, e, side) for t, e in zip(T['of'], x))
    if k == 'struct':
        if not isinstance(x, dict):
            return 'R', f'{jkind(x)}-for-struct'
        if set(x) - set(T['members']):
            return 'R', 'unknown-member'
        if set(T['members']) - set(T['optional']) - set(x):
            return 'R', 'missing-member'
        stats = []
        for key, e in x.items():
            if e is None:
                # driver side: None stands for "left out" (a convenience); a JSON null on the wire is no value of any member type
                stats.append(('E', 'null-member') if side == 'drv' else ('R', 'null-member'))
            else:
                stats.append(status(T['members'][key], e, side))
        return combine(stats)
    raise ValueError(f'bad spec {T!r}')


def b64_lenient(x):
    """the two deviations a lenient decoder may forgive without changing the decoded bytes:
    white space, and '=' characters in excess of a correct padding"""
    xs = re.sub(r'\s', '', x)
    core = xs.rstrip('=')
    if len(xs) - len(core) > (-len(core)) % 4:
        xs = core + '=' * ((-len(core)) % 4)
    return xs


def jkind(x):
    if x is None:
        return 'null'
    if isinstance(x, bool):
        return 'bool'
    if isinstance(x, (int, float)):
        return 'number'
    if isinstance(x, str):
        return 'string'
    if isinstance(x, bytes):
        return 'bytes'
    if isinstance(x, (list, tuple)):
        return 'list'
    if isinstance(x, dict):
        return 'object'
    return type(x).__name__


def canon(v):
    """frappy value -> plain python (EnumMember -> (code, name); mappings -> dict; sequences -> list)"""
    if isinstance(v, (bool, str, bytes, float)) or v is None:
        return v
    if isinstance(v, int):
        return v
    if hasattr(v, 'name') and hasattr(v, 'value') and hasattr(v, 'enum'):
        return ('enum', int(v.value), v.name)
    if isinstance(v, dict):
        return {k: canon(e) for k, e in v.items()}
    if isinstance(v, (list, tuple)):
        return [canon(e) for e in v]
    return ('?', type(v).__name__, repr(v))


def denotes(T, x, prev, r, side='wire', top=True):
    """r (canonical) was returned for offered x (with previous value prev, canonical or None)

    -> list of (clause, reason); empty when r is inside the value set of T and denotes x
    """
    k = T['k']
    bad = []
    if k == 'double':
        if type(r) is not float:
            return [('shape', f'double-is-{jkind(r)}')]
        if not finite(r):
            return [('sound', 'nonfinite-result')]
        lo, hi = dlimits(T)
        tol = dtol(T, r) * (1 + BAND) + 5e-324
        if not lo - tol <= r <= hi + tol:
            bad.append(('sound', 'outside-limits'))
        if isinstance(x, float) and abs(x) == math.inf:
            if r != math.copysign(FMAX, x):
                bad.append(('fidelity', 'inf'))
        elif isnum(x) or isinstance(x, bool):
            fx = float(x)
            if lo <= fx <= hi:
                if r != fx:
                    bad.append(('fidelity', 'double-changed'))
            elif abs(r - fx) > dtol(T, fx) * (1 + BAND) + 5e-324:
                bad.append(('fidelity', 'double-moved-beyond-tolerance'))
        else:
            bad.append(('reinterpret', f'{jkind(x)}-as-double'))
        return bad
    if k == 'int':
        if type(r) is not int:
            return [('shape', f'int-is-{jkind(r)}')]
        if not T['min'] <= r <= T['max']:
            bad.append(('sound', 'outside-limits'))
        if isnum(x) or isinstance(x, bool):
            if r != x:
                bad.append(('fidelity', 'int-changed'))
        else:
            bad.append(('reinterpret', f'{jkind(x)}-as-int'))
        return bad
    if k == 'scaled':
        if type(r) is not float:
            return [('shape', f'scaled-is-{jkind(r)}')]
        if not finite(r):
            return [('sound', 'nonfinite-result')]
        s = T['scale']
        n = round(r / s)
        if abs(r - n * s) > abs(r) * 1e-12 + s * 1e-9:
            bad.append(('sound', 'off-grid'))
        if not T['lo'] <= n <= T['hi']:
            bad.append(('sound', 'outside-limits'))
        if not (isnum(x) or isinstance(x, bool)):
            bad.append(('reinterpret', f'{jkind(x)}-as-scaled'))
        elif side == 'wire':
            if x != math.floor(x):
                bad.append(('reinterpret', 'fraction-truncated'))
            elif n != min(max(int(x), T['lo']), T['hi']):
                bad.append(('fidelity', 'scaled-changed'))
        else:
            fx = min(max(float(x), T['lo'] * s), T['hi'] * s)
            if abs(r - fx) > 0.5 * s * (1 + BAND) + abs(fx) * 1e-12:
                bad.append(('fidelity', 'scaled-moved-beyond-half-step'))
        return bad
    if k == 'bool':
        if type(r) is not bool:
            return [('shape', f'bool-is-{jkind(r)}')]
        if not (isinstance(x, bool) or isnum(x)) or x not in (0, 1):
            bad.append(('reinterpret', f'{jkind(x)}-as-bool'))
        elif r != bool(x):
            bad.append(('fidelity', 'bool-changed'))
        return bad
    if k == 'enum':
        if not (isinstance(r, tuple) and r and r[0] == 'enum'):
            return [('shape', f'enum-is-{jkind(r)}')]
        _, code, name = r
        if T['members'].get(name) != code:
            bad.append(('sound', 'nonmember'))
        if isinstance(x, dict) and '$foreign_member' in x:
            x = x['$foreign_member'][1]
        if isinstance(x, str):
            if T['members'].get(x) != code:
                bad.append(('fidelity', 'enum-changed'))
        elif isinstance(x, bool) or isnum(x):
            if x != code:
                bad.append(('fidelity', 'enum-changed'))
        else:
            bad.append(('reinterpret', f'{jkind(x)}-as-enum'))
        return bad
    if k == 'string':
        if type(r) is not str:
            return [('shape', f'string-is-{jkind(r)}')]
        if status(T, r)[0] != 'A':
            bad.append(('sound', status(T, r)[1]))
        if not isinstance(x, str):
            bad.append(('reinterpret', f'{jkind(x)}-as-string'))
        elif r != x:
            bad.append(('fidelity', 'string-changed'))
        return bad
    if k == 'blob':
        if type(r) is not bytes:
            return [('shape', f'blob-is-{jkind(r)}')]
        if not T['min'] <= len(r) <= T['max']:
            bad.append(('sound', 'length'))
        if side == 'wire':
            if not isinstance(x, str):
                bad.append(('reinterpret', f'{jkind(x)}-as-blob'))
            else:
                xs = b64_lenient(x)
                try:
                    want = base64.b64decode(xs, validate=True)
                    if not B64.match(xs):
                        raise binascii.Error
                except (binascii.Error, ValueError):
                    bad.append(('reinterpret', 'undecodable-base64-taken-as-bytes'))
                else:
                    if r != want:
                        bad.append(('fidelity', 'blob-changed'))
        elif not isinstance(x, bytes):
            bad.append(('reinterpret', f'{jkind(x)}-as-blob'))
        elif r != x:
            bad.append(('fidelity', 'blob-changed'))
        return bad
    if k in ('array', 'tuple'):
        if not isinstance(r, list):
            return [('shape', f'{k}-is-{jkind(r)}')]
        if not isinstance(x, (list, tuple)):
            return [('reinterpret', f'{jkind(x)}-as-{k}')]
        if k == 'array' and not T['min'] <= len(r) <= T['max']:
            bad.append(('sound', 'length'))
        if k == 'tuple' and len(r) != len(T['of']):
            bad.append(('sound', 'length'))
        if len(r) != len(x):
            why = 'elements-dropped' if len(r) < len(x) else 'elements-invented'
            if prev is not None and len(prev) != len(x):
                why += '-with-previous-of-other-length'
            bad.append(('fidelity', why))
            return bad
        for i, (e, re_) in enumerate(zip(x, r)):
            sub = T['of'] if k == 'array' else (T['of'][i] if i < len(T['of']) else None)
            if sub is None:
                break
            p = prev[i] if isinstance(prev, list) and i < len(prev) else None
            bad.extend(denotes(sub, e, p, re_, side, False))
        return bad
    if k == 'struct':
        if not isinstance(r, dict):
            return [('shape', f'struct-is-{jkind(r)}')]
        if not isinstance(x, dict):
            return [('reinterpret', f'{jkind(x)}-as-struct')]
        prev = prev if isinstance(prev, dict) else None
        members = T['members']
        if set(r) - set(members):
            bad.append(('sound', 'unknown-member-in-result'))
        if set(members) - set(T['optional']) - set(r):
            why = 'mandatory-member-missing-in-result'
            if any(e is None for e in x.values()):
                why += '-after-null'
            bad.append(('sound', why))
        for key, sub in members.items():
            pk = prev.get(key) if prev else None
            if key in x and x[key] is not None:
                if key not in r:
                    bad.append(('fidelity', 'member-dropped'))
                else:
                    bad.extend(denotes(sub, x[key], pk, r[key], side, False))
            elif key in r:
                # not offered (or offered as null): may only come from the previous value
                if pk is None:
                    bad.append(('fidelity', 'member-invented'))
                elif r[key] != pk:
                    bad.append(('fidelity', 'previous-member-changed'))
            elif pk is not None and top:
                bad.append(('fidelity', 'previous-member-not-merged'))
        return bad
    raise ValueError(f'bad spec {T!r}')


# ---------------------------------------------------------------------------------------
# value-set helpers used by generators (plain python, deterministic)

def default_value(T, side='drv'):
    k = T['k']
    if k == 'double':
        lo, hi = dlimits(T)
        return 0.0 if lo <= 0 <= hi else lo
    if k == 'int':
        return 0 if T['min'] <= 0 <= T['max'] else T['min']
    if k == 'scaled':
        n = 0 if T['lo'] <= 0 <= T['hi'] else T['lo']
        return n if side == 'wire' else n * T['scale']
    if k == 'bool':
        return False
    if k == 'enum':
        return sorted(T['members'].values())[0]
    if k == 'string':
        return ' ' * T['min']
    if k == 'blob':
        z = b'\0' * T['min']
        return base64.b64encode(z).decode() if side == 'wire' else z
    if k == 'array':
        return [default_value(T['of'], side)] * T['min']
    if k == 'tuple':
        return [default_value(t, side) for t in T['of']]
    if k == 'struct':
        return {n: default_value(t, side) for n, t in T['members'].items()}
    raise ValueError(T)


def to_wire(T, v):
    """driver-side plain value (as produced by the generators) -> wire JSON value"""
    k = T['k']
    if k == 'scaled':
        return v if isinstance(v, int) and not isinstance(v, bool) else round(v / T['scale'])
    if k == 'blob':
        return base64.b64encode(v).decode('ascii')
    if k == 'array':
        return [to_wire(T['of'], e) for e in v]
    if k == 'tuple':
        return [to_wire(t, e) for t, e in zip(T['of'], v)]
    if k == 'struct':
        return {n: to_wire(T['members'][n], e) for n, e in v.items()}
    return v


def wellformed(T):
    """a (possibly shrunk) type tree is a legal declaration: distinct enum codes, ordered limits, known kinds"""
    try:
        k = T['k']
        if k == 'enum':
            return len(T['members']) >= 1 and len(set(T['members'].values())) == len(T['members']) and \
                all(isinstance(n, str) and n for n in T['members'])
        if k == 'array':
            return 0 <= T.get('min', 0) <= T['max'] and wellformed(T['of'])
        if k == 'tuple':
            return len(T['of']) >= 1 and all(wellformed(t) for t in T['of'])
        if k == 'struct':
            return len(T['members']) >= 1 and all(wellformed(t) for t in T['members'].values()) and set(T.get('optional', [])) <= set(T['members'])
        return k in ('double', 'int', 'scaled', 'bool', 'string', 'blob')
    except (KeyError, TypeError):
        return False


def depth(T):
    k = T['k']
    if k == 'array':
        return 1 + depth(T['of'])
    if k == 'tuple':
        return 1 + max(depth(t) for t in T['of'])
    if k == 'struct':
        return 1 + max(depth(t) for t in T['members'].values())
    return 0


def kinds(T, acc=None):
    acc = set() if acc is None else acc
    acc.add(T['k'])
    if T['k'] == 'array':
        kinds(T['of'], acc)
    elif T['k'] == 'tuple':
        for t in T['of']:
            kinds(t, acc)
    elif T['k'] == 'struct':
        for t in T['members'].values():
            kinds(t, acc)
    return acc


def subset(A, B):
    """True if every member of A's value set is a member of B's (same kinds and the
    number-widening pairings SECoP/frappy support); None when the pairing is not one the
    compatibility check is written for"""
    ka, kb = A['k'], B['k']
    if ka == 'double':
        if kb == 'double':
            return dlimits(B)[0] <= dlimits(A)[0] and dlimits(A)[1] <= dlimits(B)[1]
        if kb == 'scaled':
            return None
        return False if kb not in ('int',) else None
    if ka == 'int':
        if kb == 'int':
            return B['min'] <= A['min'] and A['max'] <= B['max']
        if kb == 'double':
            return dlimits(B)[0] <= A['min'] and A['max'] <= dlimits(B)[1]
        if kb == 'scaled':
            return None
        if kb == 'enum':
            if A['max'] - A['min'] > 1000:
                return False
            return all(i in set(B['members'].values()) for i in range(A['min'], A['max'] + 1))
        if kb == 'bool':
            return 0 <= A['min'] and A['max'] <= 1
        return False
    if ka == 'scaled':
        if kb == 'scaled':
            if A['scale'] != B['scale']:
                return None
            return B['lo'] <= A['lo'] and A['hi'] <= B['hi']
        if kb == 'double':
            s = A['scale']
            return dlimits(B)[0] <= A['lo'] * s and A['hi'] * s <= dlimits(B)[1]
        return False if kb != 'int' else None
    if ka == 'bool':
        if kb == 'bool':
            return True
        return None if kb in ('int', 'enum', 'double', 'scaled') else False
    if ka == 'enum':
        if kb == 'enum':
            return all(B['members'].get(n) == c for n, c in A['members'].items())
        return None if kb in ('int', 'bool', 'double', 'scaled') else False
    if ka == 'string':
        if kb != 'string':
            return False
        bmax = math.inf if B.get('max') is None else B['max']
        amax = math.inf if A.get('max') is None else A['max']
        return B['min'] <= A['min'] and amax <= bmax and (not A.get('utf8') or bool(B.get('utf8')))
    if ka == 'blob':
        if kb != 'blob':
            return False
        return B['min'] <= A['min'] and A['max'] <= B['max']
    if ka == 'array':
        if kb != 'array':
            return False
        if not (B['min'] <= A['min'] and A['max'] <= B['max']):
            return False
        return subset(A['of'], B['of'])
    if ka == 'tuple':
        if kb != 'tuple' or len(A['of']) != len(B['of']):
            return False
        res = [subset(a, b) for a, b in zip(A['of'], B['of'])]
        if False in res:
            return False
        return None if None in res else True
    if ka == 'struct':
        if kb != 'struct':
            return False
        if set(A['members']) - set(B['members']):
            return False
        if set(B['members']) - set(B['optional']) - set(A['members']):
            return False
        res = [subset(a, B['members'][n]) for n, a in A['members'].items()]
        if False in res:
            return False
        return None if None in res else True
    raise ValueError(A)
