"""deterministic cooperative scheduler: the harness owns thread interleavings and the clock

Every thread started inside a case is a real thread parked on its own semaphore; exactly one managed
thread runs at any time.  Instrumented Lock/RLock/Event/Condition/Queue/Thread/sleep/time are implemented
in terms of scheduler state; each operation is a yield point before it takes effect.  A schedule is a
list of small integers consumed at the decision points; an exhausted list means "keep running the
current thread, on block take the lowest runnable".  Virtual time jumps to the earliest deadline when
nothing is runnable.
"""
import sys
import time as _time
import types
import queue as _queue
import select as _select
import socket as _socket
import threading as _threading
import itertools

REAL_TIMEOUT = 20.0   # real seconds per case before it is declared hung (inconclusive, never a violation)


class Deadlock(Exception):
    pass


class Hang(Exception):
    """harness problem: a managed thread did not come back (blocked on something unmanaged)"""


class StepLimit(Exception):
    pass


_current = None    # the scheduler of the running case


def sched():
    return _current


class DThread:
    _ids = itertools.count()

    def __init__(self, s, fn, args, kwds, name=None):
        self.s = s
        self.fn, self.args, self.kwds = fn, args, kwds
        self.ident = len(s.threads)
        self.name = name or f'T{self.ident}:{getattr(fn, "__name__", "?").lstrip("_")}'
        self.gate = _threading.Semaphore(0)
        self.state = 'run'
        self.waiton = None
        self.deadline = None
        self.timedout = False
        self.exc = None
        self.daemon = True
        self.real = _threading.Thread(target=self._boot, daemon=True)

    def _boot(self):
        self.gate.acquire()
        if self.s.aborted:
            return
        try:
            self.fn(*self.args, **self.kwds)
        except _Abort:
            pass
        except BaseException as e:   # noqa
            self.exc = e
        finally:
            self.state = 'done'
            self.s.wake(lambda w: w is self)
            try:
                self.s.switch('exit')
            except BaseException as e:  # noqa
                if not isinstance(e, _Abort):
                    self.s.error = self.s.error or e

    # threading.Thread interface used by frappy
    def join(self, timeout=None):
        s = self.s
        s.yield_point('join')
        if self.state != 'done':
            s.block(self, timeout)

    def is_alive(self):
        return self.state != 'done'

    isAlive = is_alive

    def start(self):
        pass

    def __repr__(self):
        return f'<{self.name} {self.state}>'


class _Abort(BaseException):
    pass


class Sched:
    def __init__(self, choices=(), preempt=None, t0=1_000_000.0, step_limit=200000, horizon=None):
        self.choices = list(choices)
        self.ci = 0
        self.preempt = dict(preempt or {})
        self.threads = []
        self.cur = None
        self.now = t0
        self.t0 = t0
        self.steps = 0
        self.step_limit = step_limit
        self.trace = []
        self.error = None
        self.aborted = False
        self.switches = 0
        self.decisions = 0
        self.horizon = horizon
        self.done_event = _threading.Event()

    # ---- thread management
    def spawn(self, fn, *args, **kwds):
        t = DThread(self, fn, args, kwds, kwds.pop('_name', None))
        self.threads.append(t)
        t.real.start()
        return t

    def managed(self):
        cur = self.cur
        return cur is not None and _threading.get_ident() == cur.real.ident

    def runnable(self):
        return [t for t in self.threads if t.state == 'run']

    def pick(self, tag):
        self.steps += 1
        if self.steps > self.step_limit:
            raise StepLimit(f'more than {self.step_limit} scheduling steps')
        for t in self.threads:
            # a thread stalled until a condition on the tested code's state holds resumes at the first scheduling point
            # where it does, before everything else (a preemption placed by a predicate instead of a step number)
            if t.state == 'block' and isinstance(t.waiton, tuple) and t.waiton[0] == 'stall' and t.waiton[1]():
                t.state = 'run'
                t.timedout = False
                return t
        r = self.runnable()
        if not r:
            timed = [t for t in self.threads if t.state == 'block' and t.deadline is not None]
            if not timed:
                if all(t.state == 'done' for t in self.threads):
                    return None
                raise Deadlock([(t.name, _describe(t.waiton)) for t in self.threads if t.state == 'block'])
            t = min(timed, key=lambda t: (t.deadline, t.ident))
            if self.horizon is not None and t.deadline > self.t0 + self.horizon:
                raise Deadlock([('virtual time horizon reached', [(x.name, _describe(x.waiton)) for x in self.threads if x.state == 'block'])])
            self.now = max(self.now, t.deadline)
            t.state = 'run'
            t.timedout = True
            r = [t]
        if len(r) == 1:
            return r[0]
        self.decisions += 1
        if self.steps in self.preempt:
            return r[self.preempt[self.steps] % len(r)]
        if self.ci < len(self.choices):
            k = self.choices[self.ci]
            self.ci += 1
            if k == 0 and self.cur in r:
                return self.cur
            return r[k % len(r)]
        if self.cur in r:
            return self.cur
        return r[0]

    def switch(self, tag):
        me = self.cur
        try:
            nxt = self.pick(tag)
        except BaseException as e:  # noqa - Deadlock / StepLimit: end the case
            self.error = self.error or e
            self.abort()
            raise _Abort() from None
        self.trace.append((me.ident if me else -1, tag))
        if nxt is me:
            return
        self.switches += 1
        self.cur = nxt
        if nxt is not None:
            nxt.gate.release()
        else:
            self.done_event.set()
        if me is not None and me.state != 'done':
            me.gate.acquire()
            if self.aborted:
                raise _Abort()

    def abort(self):
        self.aborted = True
        self.done_event.set()
        for t in self.threads:
            t.gate.release()

    def yield_point(self, tag):
        if not self.managed() or self.aborted:
            return
        self.switch(tag)

    def block(self, waiton, timeout=None):
        """-> False on time-out"""
        me = self.cur
        if not self.managed():
            raise Hang(f'unmanaged thread would block on {waiton!r}')
        me.state = 'block'
        me.waiton = waiton
        me.timedout = False
        me.deadline = None if timeout is None or timeout < 0 else self.now + timeout
        self.switch('block')
        return not me.timedout

    def stall(self, cond, timeout=None):
        """the calling thread is not scheduled until cond() holds (evaluated at every scheduling point) -> False on time-out"""
        if cond():
            return True
        return self.block(('stall', cond), timeout)

    def wake(self, pred):
        for t in self.threads:
            if t.state == 'block' and pred(t.waiton):
                t.state = 'run'

    def run(self, mainfn):
        """run mainfn and everything it spawns to completion under this schedule"""
        global _current
        prev = _current
        _current = self
        try:
            main = self.spawn(mainfn, _name='T0:main')
            self.cur = main
            main.gate.release()
            if not self.done_event.wait(REAL_TIMEOUT):
                self.abort()
                raise Hang(f'case did not finish within {REAL_TIMEOUT}s of real time; threads {self.threads!r}')
            for t in self.threads:
                t.real.join(1.0)
        finally:
            _current = prev
        if isinstance(self.error, (Deadlock, StepLimit)):
            raise self.error
        if self.error:
            raise self.error
        return main

    def trace_hash(self):
        return hash(tuple(self.trace))


def _describe(w):
    if isinstance(w, DThread):
        return f'join {w.name}'
    if isinstance(w, tuple):
        return f'{w[0]} {type(w[1]).__name__}'
    return type(w).__name__ if w is not None else 'sleep'


# ---------------------------------------------------------------------------------------------------
# instrumented primitives (bound to the scheduler current at the time of each call)

class DEvent:
    def __init__(self):
        self.flag = False

    def set(self):
        s = _current
        if s:
            s.yield_point('ev.set')
        self.flag = True
        if s:
            s.wake(lambda w: w is self)
            s.yield_point('ev.set.done')     # a waiter may run before the setter's next statement

    def clear(self):
        self.flag = False

    def is_set(self):
        return self.flag

    isSet = is_set

    def wait(self, timeout=None):
        s = _current
        if s and s.managed():
            s.yield_point('ev.wait')
            if not self.flag:
                s.block(self, timeout)
        return self.flag


class DRLock:
    reentrant = True

    def __init__(self):
        self.owner = None
        self.n = 0

    def acquire(self, blocking=True, timeout=-1):
        s = _current
        if not (s and s.managed()):
            self.n += 1
            return True
        s.yield_point('lock.acq')
        me = s.cur
        while self.owner is not None and not (self.reentrant and self.owner is me):
            if not blocking:
                return False
            if not s.block(self, None if timeout is None or timeout < 0 else timeout):
                return False
        self.owner = me
        self.n += 1
        return True

    def release(self):
        s = _current
        self.n -= 1
        if self.n <= 0:
            self.n = 0
            self.owner = None
            if s:
                s.wake(lambda w: w is self)

    def locked(self):
        return self.owner is not None

    __enter__ = acquire

    def __exit__(self, *a):
        self.release()

    def _is_owned(self):
        s = _current
        return s is not None and self.owner is s.cur


class DLock(DRLock):
    reentrant = False


class DCondition:
    def __init__(self, lock=None):
        self.lock = lock or DRLock()
        self.acquire, self.release = self.lock.acquire, self.lock.release

    def __enter__(self):
        return self.lock.__enter__()

    def __exit__(self, *a):
        return self.lock.__exit__(*a)

    def wait(self, timeout=None):
        s = _current
        n, owner = self.lock.n, self.lock.owner
        self.lock.n, self.lock.owner = 0, None
        s.wake(lambda w: w is self.lock)
        ok = s.block(('cond', self), timeout)
        while self.lock.owner is not None:
            s.block(self.lock)
        self.lock.n, self.lock.owner = n, owner
        return ok

    def notify(self, n=1):
        s = _current
        woken = [0]

        def pred(w):
            if w == ('cond', self) and woken[0] < n:
                woken[0] += 1
                return True
            return False
        s.wake(pred)

    def notify_all(self):
        _current.wake(lambda w: w == ('cond', self))

    notifyAll = notify_all


class DQueue:
    def __init__(self, maxsize=0):
        self.items = []
        self.maxsize = maxsize

    def empty(self):
        return not self.items

    def qsize(self):
        return len(self.items)

    def full(self):
        return bool(self.maxsize) and len(self.items) >= self.maxsize

    def put(self, item, block=True, timeout=None):
        s = _current
        if s and s.managed():
            s.yield_point('q.put')
            while self.maxsize and len(self.items) >= self.maxsize:
                if not block or not s.block(('notfull', self), timeout):
                    raise _queue.Full
        self.items.append(item)
        if s:
            s.wake(lambda w: w == ('notempty', self))
            s.yield_point('q.put.done')

    def get(self, block=True, timeout=None):
        s = _current
        if s and s.managed():
            s.yield_point('q.get')
            while not self.items:
                if not block or not s.block(('notempty', self), timeout):
                    raise _queue.Empty
        elif not self.items:
            raise _queue.Empty
        item = self.items.pop(0)
        if s:
            s.wake(lambda w: w == ('notfull', self))
        return item

    def put_nowait(self, item):
        return self.put(item, False)

    def get_nowait(self):
        return self.get(False)


class DThreadFactory:
    """stands in for threading.Thread(target=...)"""

    def __init__(self, group=None, target=None, name=None, args=(), kwargs=None, daemon=None):
        self._target, self._args, self._kwargs = target, args, kwargs or {}
        self._t = None
        self.daemon = daemon
        self.name = name

    def start(self):
        self._t = _current.spawn(self._target, *self._args, **self._kwargs)

    def join(self, timeout=None):
        if self._t:
            self._t.join(timeout)

    def is_alive(self):
        return bool(self._t) and self._t.is_alive()

    def setDaemon(self, flag):
        self.daemon = flag


def d_mkthread(func, *args, **kwds):
    return _current.spawn(func, *args, **kwds)


def d_current_thread():
    s = _current
    if s and s.managed():
        return s.cur
    return _threading.current_thread()


def v_time():
    s = _current
    return s.now if s else _time.time()


def v_sleep(dt):
    s = _current
    if s and s.managed():
        s.yield_point('sleep')
        s.block(None, max(dt, 0))
    return None


fake_threading = types.SimpleNamespace(
    Lock=DLock, RLock=DRLock, Event=DEvent, Condition=DCondition, Thread=DThreadFactory, current_thread=d_current_thread,
    get_ident=lambda: id(d_current_thread()), Semaphore=_threading.Semaphore, Timer=_threading.Timer, local=_threading.local,
    main_thread=_threading.main_thread, TIMEOUT_MAX=_threading.TIMEOUT_MAX)
fake_time = types.SimpleNamespace(time=v_time, sleep=v_sleep, monotonic=v_time, perf_counter=v_time, localtime=_time.localtime, strftime=_time.strftime,
                                  mktime=_time.mktime, gmtime=_time.gmtime, struct_time=_time.struct_time, time_ns=lambda: int(v_time() * 1e9))
fake_queue = types.SimpleNamespace(Queue=DQueue, Empty=_queue.Empty, Full=_queue.Full)


class Patcher:
    """re-binds, by identity, the synchronisation/time objects found in the globals of loaded frappy modules"""

    def __init__(self, extra=None, prefixes=('frappy',)):
        import frappy.lib
        self.byid = {
            id(_threading): fake_threading, id(_time): fake_time, id(_queue): fake_queue,
            id(_threading.Event): DEvent, id(_threading.RLock): DRLock, id(_threading.Lock): DLock, id(_threading.Condition): DCondition,
            id(_threading.Thread): DThreadFactory, id(_threading.current_thread): d_current_thread,
            id(_time.time): v_time, id(_time.sleep): v_sleep, id(_time.monotonic): v_time, id(_queue.Queue): DQueue,
            id(frappy.lib.mkthread): d_mkthread,
        }
        self.byid.update({id(k): v for k, v in (extra or {}).items()})
        self.prefixes = prefixes
        self.saved = []

    def __enter__(self):
        for name, mod in list(sys.modules.items()):
            if mod is None or not any(name == p or name.startswith(p + '.') for p in self.prefixes):
                continue
            for key, val in list(vars(mod).items()):
                new = self.byid.get(id(val))
                if new is not None:
                    self.saved.append((mod, key, val))
                    setattr(mod, key, new)
        return self

    def __exit__(self, *exc):
        for mod, key, val in reversed(self.saved):
            setattr(mod, key, val)
        self.saved.clear()
        return False


# ---------------------------------------------------------------------------------------------------
# schedules

def random_schedule_strategy(max_len=120, width=4):
    from hypothesis import strategies as st
    return st.lists(st.integers(0, width - 1), max_size=max_len)
