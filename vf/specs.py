"""spec-first generation: Hypothesis draws plain JSON-able specs, builders make frappy objects"""
import math
import base64
import json

from hypothesis import strategies as st

from vf import refmodel as rm

FMAX = rm.FMAX

# ------------------------------------------------------------------------------------
# datatype trees

D_LIMITS = [None, 0.0, 1.0, -1.0, 0.1, -0.1, 5.0, 100.0, -273.15, 1e-300, -1e-300, 1e300, -1e300,
            1e15, 3.0000000000000004, FMAX, -FMAX]
I_LIMITS = [-(1 << 63), -(1 << 31), -16777216, -300, -5, -1, 0, 1, 2, 5, 255, 16777216,
            (1 << 53) + 1, (1 << 63) - 1, 1 << 64]
S_SCALES = [0.1, 0.01, 1.0, 0.003, 2.5, 1e-6, 1e6, 0.5, 1 / 3, 0.7, 0.03, 0.3]
S_LIMITS = [-(1 << 40), -16777216, -300, -30, -3, -1, 0, 1, 3, 30, 333, 16777216, 1 << 40]
NAMES = ['a', 'b', 'c', 'x_1', 'On', 'OFF', 'value', 'ü']
ENUM_NAMES = ['off', 'on', 'idle', 'BUSY', 'err_1', 'x', 'Y2', 'name', 'value']   # (attribute names of the member objects included)


def _sorted2(lst, allow_none=False):
    def fix(t):
        a, b = t
        if a is None or b is None:
            return (a, b)
        return (a, b) if a <= b else (b, a)
    return st.tuples(st.sampled_from(lst), st.sampled_from(lst)).map(fix)


@st.composite
def double_spec(draw):
    lo, hi = draw(_sorted2(D_LIMITS))
    return {'k': 'double', 'min': lo, 'max': hi,
            'abs': draw(st.sampled_from([0.0, 0.0, 1e-3, 0.5])),
            'rel': draw(st.sampled_from([1.2e-7, 1.2e-7, 0.0, 1e-3]))}


@st.composite
def int_spec(draw):
    lo, hi = draw(_sorted2(I_LIMITS))
    return {'k': 'int', 'min': lo, 'max': hi}


@st.composite
def scaled_spec(draw):
    # grid indices: the fixed list of extremes, or any small index (index * scale / scale lands on either side of the
    # integer in floating point, e.g. 3 * 0.1 / 0.1 > 3 but 0.3 / 0.1 < 3)
    if draw(st.integers(0, 2)):
        a, b = draw(st.integers(-1000, 1000)), draw(st.integers(-1000, 1000))
        lo, hi = min(a, b), max(a, b)
    else:
        lo, hi = draw(_sorted2(S_LIMITS))
    T = {'k': 'scaled', 'scale': draw(st.sampled_from(S_SCALES)), 'lo': lo, 'hi': hi}
    if draw(st.integers(0, 3)) == 0:
        # an explicitly declared resolution coarser than the grid (it is informative: the tolerance at the limits stays one step)
        T['abs'] = T['scale'] * draw(st.sampled_from([3, 10, 100]))
    return T


@st.composite
def enum_spec(draw):
    names = draw(st.lists(st.sampled_from(ENUM_NAMES), min_size=1, max_size=5, unique=True))
    codes = draw(st.lists(st.sampled_from([-5, -1, 0, 1, 2, 3, 5, 7, 100, 300]),
                          min_size=len(names), max_size=len(names), unique=True))
    return {'k': 'enum', 'members': dict(zip(names, codes))}


@st.composite
def string_spec(draw):
    lo = draw(st.sampled_from([0, 0, 1, 3]))
    hi = draw(st.sampled_from([None, None, lo, lo + 2, 10]))
    if hi is not None and hi < lo:
        hi = lo
    if hi == 0:
        hi = None
    return {'k': 'string', 'min': lo, 'max': hi, 'utf8': draw(st.booleans())}


@st.composite
def blob_spec(draw):
    lo = draw(st.sampled_from([0, 0, 1, 3]))
    hi = max(lo, draw(st.sampled_from([1, 3, 4, 10, 255])))
    return {'k': 'blob', 'min': lo, 'max': hi}


LEAVES = [double_spec(), int_spec(), scaled_spec(), st.just({'k': 'bool'}), enum_spec(),
          string_spec(), blob_spec()]


def leaf_spec():
    return st.one_of(*LEAVES)


def tree_spec(max_depth=3):
    def extend(children):
        arr = st.builds(lambda of, lo, extra: {'k': 'array', 'of': of, 'min': lo, 'max': lo + extra},
                        children, st.sampled_from([0, 0, 1, 2]), st.sampled_from([0, 1, 3]))
        arr = arr.filter(lambda a: a['max'] > 0)
        tup = st.builds(lambda of: {'k': 'tuple', 'of': of}, st.lists(children, min_size=1, max_size=3))

        @st.composite
        def struct(draw):
            names = draw(st.lists(st.sampled_from(NAMES), min_size=1, max_size=3, unique=True))
            members = {n: draw(children) for n in names}
            optional = draw(st.lists(st.sampled_from(names), unique=True, max_size=len(names)))
            return {'k': 'struct', 'members': members, 'optional': sorted(optional)}
        return st.one_of(arr, tup, struct())
    strat = leaf_spec()
    for _ in range(max_depth):
        strat = st.one_of(leaf_spec(), extend(strat))
    return strat


def build(T):
    """spec -> frappy datatype through the public constructors"""
    from frappy import datatypes as dt
    k = T['k']
    if k == 'double':
        kw = {}
        if T.get('abs'):
            kw['absolute_resolution'] = T['abs']
        if T.get('rel', 1.2e-7) != 1.2e-7:
            kw['relative_resolution'] = T['rel']
        if T.get('unit'):
            kw['unit'] = T['unit']
        if T.get('fmtstr'):
            kw['fmtstr'] = T['fmtstr']
        return dt.FloatRange(T.get('min'), T.get('max'), **kw)
    if k == 'int':
        return dt.IntRange(T['min'], T['max'])
    if k == 'scaled':
        kw = {}
        if T.get('unit'):
            kw['unit'] = T['unit']
        if T.get('abs'):
            kw['absolute_resolution'] = T['abs']
        return dt.ScaledInteger(T['scale'], T['lo'] * T['scale'], T['hi'] * T['scale'], **kw)
    if k == 'bool':
        return dt.BoolType()
    if k == 'enum':
        return dt.EnumType(T.get('name', 'e'), members=dict(T['members']))
    if k == 'string':
        if T.get('text'):
            res = dt.TextType(T.get('max'))
            if T.get('utf8'):
                res.setProperty('isUTF8', True)     # as an override Parameter(isUTF8=True) or the configuration would do
            return res
        return dt.StringType(T['min'], dt.UNLIMITED if T.get('max') is None else T['max'],
                             isUTF8=bool(T.get('utf8')))
    if k == 'blob':
        return dt.BLOBType(T['min'], T['max'])
    if k == 'array':
        return dt.ArrayOf(build(T['of']), T['min'], T['max'])
    if k == 'tuple':
        return dt.TupleOf(*[build(t) for t in T['of']])
    if k == 'struct':
        return dt.StructOf(optional=list(T['optional']), **{n: build(t) for n, t in T['members'].items()})
    raise ValueError(T)


# ------------------------------------------------------------------------------------
# members of the value set (driver-side plain values: tuples as lists, blobs as bytes,
# scaled as physical float, enums as code)

TEXT_ASCII = 'aZ09 _-"\'\\\n\t{}[],:%'
TEXT_UTF8 = TEXT_ASCII + 'äπ€ 😀'


def scaled_value(T, n):
    return float(n * T['scale'])


@st.composite
def valid_value(draw, T, complete=False):
    k = T['k']
    if k == 'double':
        lo, hi = rm.dlimits(T)
        cat = [v for v in (lo, hi, 0.0, 1.0, -1.0, lo / 2 + hi / 2, math.nextafter(lo, hi), math.nextafter(hi, lo),
                           0.1, 1e-5, 123456.789, 1e300)
               if lo <= v <= hi]
        if draw(st.integers(0, 3)):
            return draw(st.sampled_from(cat))
        return draw(st.floats(lo, hi, allow_nan=False, allow_infinity=False))
    if k == 'int':
        lo, hi = T['min'], T['max']
        cat = [v for v in (lo, hi, 0, 1, -1, (lo + hi) // 2, lo + 1, hi - 1) if lo <= v <= hi]
        if draw(st.integers(0, 2)):
            return draw(st.sampled_from(cat))
        return draw(st.integers(lo, hi))
    if k == 'scaled':
        lo, hi = T['lo'], T['hi']
        cat = [v for v in (lo, hi, 0, 1, -1, (lo + hi) // 2, lo + 1, hi - 1, 7, 1 << 39) if lo <= v <= hi]
        n = draw(st.sampled_from(cat)) if draw(st.integers(0, 2)) else draw(st.integers(lo, hi))
        return scaled_value(T, n)
    if k == 'bool':
        return draw(st.booleans())
    if k == 'enum':
        return draw(st.sampled_from(sorted(T['members'].values())))
    if k == 'string':
        lo = T['min']
        hi = T['max'] if T.get('max') is not None else lo + 12
        n = draw(st.sampled_from([lo, hi, min(hi, lo + 1)]))
        alphabet = TEXT_UTF8 if T.get('utf8') else TEXT_ASCII
        return draw(st.text(alphabet, min_size=n, max_size=n))
    if k == 'blob':
        n = draw(st.sampled_from([T['min'], T['max'], min(T['max'], T['min'] + 1)]))
        n = min(n, 40) if n >= T['min'] and min(n, 40) >= T['min'] else n
        return draw(st.binary(min_size=n, max_size=n))
    if k == 'array':
        n = draw(st.sampled_from([T['min'], T['max'], min(T['max'], T['min'] + 1)]))
        return [draw(valid_value(T['of'], complete)) for _ in range(n)]
    if k == 'tuple':
        return [draw(valid_value(t, complete)) for t in T['of']]
    if k == 'struct':
        res = {}
        for n, t in T['members'].items():
            if complete or n not in T['optional'] or draw(st.booleans()):
                res[n] = draw(valid_value(t, complete))
        return res
    raise ValueError(T)


# ------------------------------------------------------------------------------------
# candidate catalogues: (label, value) pairs, deterministic from the spec

JSON_KINDS = [('null', None), ('true', True), ('false', False), ('0', 0), ('1', 1), ('1.0', 1.0),
              ('2.5', 2.5), ('-1', -1), ('str-1', '1'), ('str-empty', ''), ('str-abc', 'abc'),
              ('list-empty', []), ('list-0', [0]), ('obj-empty', {}), ('obj-a', {'a': 0}),
              ('nan', math.nan), ('inf', math.inf), ('-inf', -math.inf), ('1e308', 1e308),
              ('huge-int', 10 ** 400), ('big-int', (1 << 70) + 1), ('str-5', '5')]
CORE_KINDS = [('null', None), ('true', True), ('1', 1), ('2.5', 2.5), ('str-1', '1'), ('list-0', [0]),
              ('obj-a', {'a': 0}), ('nan', math.nan)]


def b64(b):
    return base64.b64encode(b).decode('ascii')


def leaf_catalogue(T, side):
    k = T['k']
    out = []
    if k == 'double':
        lo, hi = rm.dlimits(T)
        for name, lim, sgn in (('lo', lo, -1), ('hi', hi, 1)):
            tol = rm.dtol(T, lim)
            out += [(f'{name}', lim), (f'{name}-ulp-out', math.nextafter(lim, sgn * math.inf)),
                    (f'{name}-ulp-in', math.nextafter(lim, -sgn * math.inf))]
            if tol and math.isfinite(lim + sgn * 2 * tol):
                out += [(f'{name}-halftol-out', lim + sgn * 0.5 * tol), (f'{name}-2tol-out', lim + sgn * 2 * tol),
                        (f'{name}-tol-in', lim - sgn * tol)]
            if float(lim).is_integer() and abs(lim) < 1e18:
                out += [(f'{name}-as-int', int(lim)), (f'{name}-int-out', int(lim) + sgn)]
        out += [('mid', lo / 2 + hi / 2), ('zero', 0.0), ('tiny', 5e-324), ('-fmax', -FMAX), ('fmax', FMAX)]
    elif k == 'int':
        lo, hi = T['min'], T['max']
        out += [('lo', lo), ('hi', hi), ('lo-1', lo - 1), ('hi+1', hi + 1), ('mid', (lo + hi) // 2),
                ('lo-str', str(lo)), ('lo+half', lo + 0.5), ('hi-str', str(hi))]
        if abs(lo) < 1 << 52:
            out += [('lo-float', float(lo)), ('lo-1-float', float(lo - 1))]
    elif k == 'scaled':
        lo, hi, s = T['lo'], T['hi'], T['scale']
        if side == 'wire':
            out += [('lo', lo), ('hi', hi), ('lo-1', lo - 1), ('hi+1', hi + 1), ('lo-2', lo - 2), ('hi+2', hi + 2),
                    ('mid', (lo + hi) // 2), ('lo-str', str(lo)), ('hi-str', str(hi)), ('mid-str', str((lo + hi) // 2)),
                    ('lo+0.7', lo + 0.7), ('hi-0.3', hi - 0.3), ('lo-float', float(lo)), ('far', hi + (1 << 45))]
        else:
            out += [('lo', lo * s), ('hi', hi * s), ('lo-1', (lo - 1) * s), ('hi+1', (hi + 1) * s),
                    ('lo-2.5', (lo - 2.5) * s), ('hi+2.5', (hi + 2.5) * s), ('mid', ((lo + hi) // 2) * s),
                    ('lo+0.3', (lo + 0.3) * s), ('hi-0.3', (hi - 0.3) * s), ('lo-0.4', (lo - 0.4) * s),
                    ('hi+0.4', (hi + 0.4) * s), ('lo-str', str(lo * s)), ('int', int(lo * s)), ('1e300', 1e300)]
    elif k == 'bool':
        out += [('0.0', 0.0), ('2', 2), ('str-true', 'true'), ('str-True', 'True'), ('0.5', 0.5)]
    elif k == 'enum':
        codes = sorted(T['members'].values())
        for name, code in T['members'].items():
            out += [(f'code', code), ('name', name), ('code-float', float(code)), ('code-str', str(code)),
                    ('name-upper', name.swapcase()), ('name-space', name + ' ')]
        free = next(c for c in range(codes[0], codes[-1] + 3) if c not in codes)
        out += [('nonmember', free), ('nonmember-below', codes[0] - 1), ('code+0.5', codes[0] + 0.5)]
        if side == 'drv':
            # member objects of an other enumeration (a driver returning Drivable.Status.BUSY for the status of a Readable)
            out += [('foreign-member-own-code', {'$foreign_member': ['zz_foreign', codes[0]]}),
                    ('foreign-member-nonmember', {'$foreign_member': ['zz_foreign', free]})]
    elif k == 'string':
        lo, hi = T['min'], T['max']
        out += [('minlen', 'x' * lo), ('minlen-1', 'x' * max(lo - 1, 0)), ('nonascii', 'ä' * max(lo, 1)),
                ('nul', ('\0' + 'x' * lo)[:max(lo, 1)]), ('specials', '"\\\n\t\'{'[:hi] if hi else '"\\\n\t\'{'),
                ('emoji', '😀' * max(lo, 1)), ('surrogate-free-2028', ' ' * max(lo, 1))]
        if hi is not None:
            out += [('maxlen', 'y' * hi), ('maxlen+1', 'y' * (hi + 1)), ('maxlen-nonascii', 'ä' * hi)]
        else:
            out += [('long', 'z' * 5000)]
        if side == 'drv':
            out += [('bytes', b'x' * lo)]
    elif k == 'blob':
        lo, hi = T['min'], T['max']
        raws = [('minlen', bytes(range(lo))), ('minlen-1', b'\xff' * max(lo - 1, 0)), ('maxlen', b'\x00\xff' * (hi // 2) + b'\x80' * (hi % 2)),
                ('maxlen+1', b'a' * (hi + 1)), ('allbytes', bytes(range(256))[:hi])]
        if side == 'wire':
            out += [(n, b64(b)) for n, b in raws]
            ok = b64(b'abc' + b'd' * max(lo, 1))[:4 * ((lo + 3) // 3 + 1)]
            out += [('non-alphabet', 'a!b@c=='), ('bad-padding', 'YWJ'), ('bad-padding2', 'YWJjZA'), ('trailing-newline', b64(bytes(lo + 1)[:hi]) + '\n'),
                    ('urlsafe', '-_-_'), ('inner-pad', 'YQ==YQ=='), ('non-ascii', 'ää=='), ('space-inside', ok[:2] + ' ' + ok[2:]),
                    ('excess-pad', b64(bytes(max(lo, 1))[:hi]) + '=')]
        else:
            out += raws + [('str', 'YWJj'), ('bytearray-as-list', list(b'ab')), ('str-empty', '')]
    return out


def default_valid(T, side):
    """a plain valid value of T (wire or driver form), deterministic"""
    k = T['k']
    if k == 'array':
        n = max(T['min'], min(T['max'], 2))
        return [default_valid(T['of'], side) for _ in range(n)]
    if k == 'tuple':
        return [default_valid(t, side) for t in T['of']]
    if k == 'struct':
        return {n: default_valid(t, side) for n, t in T['members'].items()}
    return rm.default_value(T, side)


def catalogue(T, side, level=0, base=None):
    """candidates for T: every JSON kind, boundary values, wrong lengths/members, and a valid
    container with one position replaced by each candidate of the member type

    base: a valid value of T to mutate (default: default_valid)"""
    k = T['k']
    kinds = JSON_KINDS if level == 0 else CORE_KINDS
    out = [(f'kind:{n}', v) for n, v in kinds]
    if side == 'drv' and level == 0:
        out += [('kind:bytes', b'ab'), ('kind:tuple', (1, 2))]
    if base is None:
        base = default_valid(T, side)
    out.append(('valid-plain', base))
    if k not in ('array', 'tuple', 'struct'):
        leaf = leaf_catalogue(T, side)
        if level >= 2:
            leaf = leaf[:10]
        return out + leaf
    if k == 'array':
        one = base[0] if base else default_valid(T['of'], side)
        for name, n in (('len-min', T['min']), ('len-min-1', T['min'] - 1), ('len-max', T['max']), ('len-max+1', T['max'] + 1)):
            if n >= 0:
                out.append((name, [one] * n))
        out += [('str-for-array', 'ab'), ('obj-for-array', {'0': one}), ('str-len-ok', 'x' * max(T['min'], 1))]
        if base:
            for pos in sorted({0, len(base) - 1}):
                for n, v in catalogue(T['of'], side, level + 1, base[pos]):
                    if n != 'valid-plain':
                        out.append((f'[{"first" if pos == 0 else "last"}]{n}', base[:pos] + [v] + base[pos + 1:]))
    elif k == 'tuple':
        out += [('len-1', base[:-1]), ('len+1', base + [base[-1]]), ('str-for-tuple', 'x' * len(base)),
                ('obj-for-tuple', {str(i): v for i, v in enumerate(base)})]
        for pos, t in enumerate(T['of']):
            for n, v in catalogue(t, side, level + 1, base[pos]):
                if n != 'valid-plain':
                    out.append((f'({pos}){n}', base[:pos] + [v] + base[pos + 1:]))
    elif k == 'struct':
        names = list(T['members'])
        full = dict(base)
        for n in names:
            full.setdefault(n, default_valid(T['members'][n], side))
        out += [('full', full), ('unknown-member', dict(full, zz=1)), ('list-of-pairs', [[n, full[n]] for n in names]),
                ('list-for-struct', [full[n] for n in names]), ('str-for-struct', names[0])]
        for n in names:
            opt = 'opt' if n in T['optional'] else 'mand'
            out.append((f'missing-{opt}', {m: v for m, v in full.items() if m != n}))
            out.append((f'null-{opt}', dict(full, **{n: None})))
            for cn, v in catalogue(T['members'][n], side, level + 1, full[n]):
                if cn != 'valid-plain':
                    out.append((f'{{{opt}}}{cn}', dict(full, **{n: v})))
        out.append(('only-optional-missing', {m: v for m, v in full.items() if m not in T['optional']}))
    return out


def prev_variants(T, base):
    """previous values (driver-side plain, valid, structs complete) of other shapes than base"""
    out = [('none', None), ('same', base)]
    k = T['k']
    if k == 'array':
        one = base[0] if base else default_valid(T['of'], 'drv')
        if len(base) > T['min']:
            out.append(('shorter', base[:-1]))
        if T['min'] == 0:
            out.append(('empty', []))
        if len(base) < T['max']:
            out.append(('longer', base + [one]))
    return out


def materialise(x):
    """driver-side candidates containing objects which have no JSON form (kept as markers in the cases)"""
    if isinstance(x, dict):
        if '$foreign_member' in x:
            from frappy.lib.enum import Enum
            name, code = x['$foreign_member']
            return Enum('foreign', {name: code, 'zz_other': code + 1000})[name]
        return {k: materialise(v) for k, v in x.items()}
    if isinstance(x, list):
        return [materialise(v) for v in x]
    if isinstance(x, tuple):
        return tuple(materialise(v) for v in x)
    return x


def tojson(x):
    return json.dumps(x, default=lambda o: {'$hex': o.hex()} if isinstance(o, bytes) else repr(o))
