"""in-process SEC nodes built with the real SecNode / Dispatcher / modules, fake connections"""
import io
import json
import logging
import itertools
import contextlib

_counter = itertools.count()


class FakeConn:
    """a connection as the dispatcher sees it: records message triples"""

    def __init__(self, name='c'):
        self.name = name
        self.log = []

    def send_reply(self, msg):
        self.log.append(msg)

    def __repr__(self):
        return f'<conn {self.name}>'


class FakeSock:
    """scripted socket under the real TCPRequestHandler"""

    def __init__(self, chunks):
        self.chunks = list(chunks)
        self.out = b''
        self.sends = []

    def settimeout(self, t):
        pass

    def recv(self, n):
        if not self.chunks:
            return b''
        c = self.chunks.pop(0)
        if c is None:      # the peer stays silent for longer than the socket time-out
            import socket
            raise socket.timeout('timed out')
        if callable(c):    # hook between chunks
            c(self)
            return self.recv(n)
        if len(c) > n:
            self.chunks.insert(0, c[n:])
            c = c[:n]
        return c

    def sendall(self, data):
        if getattr(self, 'timeout_at', None) is not None and len(self.sends) == self.timeout_at:
            # the peer has not read for longer than the send time-out: a part of the data went out
            import socket
            self.out += data[:max(1, len(data) // 2)]
            self.sends.append(data[:max(1, len(data) // 2)])
            self.cut_at = len(self.out)
            raise socket.timeout('timed out')
        self.out += data
        self.sends.append(data)

    def shutdown(self, *a):
        pass

    def close(self):
        pass


class FakeTcpServer:
    detailed_errors = False

    def __init__(self, kit):
        self.log = kit.log
        self.dispatcher = kit.dispatcher


class Kit:
    """stand-in for frappy.server.Server: real SecNode and Dispatcher, no interfaces, no threads started
    unless start() is called"""
    restart = shutdown = None

    def __init__(self, module_cfg, equipment_id='eq', description='generated node', omit_unchanged_within=0):
        from frappy.lib import generalConfig
        from frappy.secnode import SecNode
        from frappy.protocol.dispatcher import Dispatcher
        from frappy.logging import init_remote_logging
        from frappy.io import HasIO
        generalConfig.testinit(omit_unchanged_within=omit_unchanged_within, lazy_number_validation=False,
                               tolerate_poll_property=False, disable_value_range_check=False)
        if hasattr(HasIO, 'ioDict'):
            HasIO.ioDict.clear()
        self.module_cfg = {k: dict(v) for k, v in module_cfg.items()}
        self.log = logging.getLogger(f'vf{next(_counter)}')
        self.log.handlers[:] = []
        self.log.propagate = False
        init_remote_logging(self.log)
        self.secnode = SecNode('node', self.log.getChild('secnode'), {'equipment_id': equipment_id}, self)
        self.dispatcher = Dispatcher('dispatcher', self.log.getChild('dispatcher'), {}, self)
        self.secnode.add_secnode_property('description', description)
        self.tb = []
        self.secnode.log.exception = lambda msg, *a: self.tb.append(str(msg))
        self.secnode.create_modules()
        self.errors = self.secnode.errors
        if not self.errors:
            self.secnode.get_descriptive_data('')   # initialises the (exported) modules, as Server._processCfg does

    @property
    def modules(self):
        return self.secnode.modules

    def describe(self):
        return self.dispatcher.handle_request(None, ('describe', None, None))[2]

    def request(self, conn, msg):
        """what the interface does with a decoded message -> reply triple (errors mapped as in RequestHandler.handle)"""
        from frappy.errors import SECoPError
        try:
            return self.dispatcher.handle_request(conn, msg)
        except SECoPError as err:
            return ('error_' + msg[0], msg[1], [err.name, str(err), {}])
        except Exception as err:  # noqa
            return ('error_' + msg[0], msg[1], ['InternalError', repr(err), {}])

    def tcp(self, chunks):
        """run the real TCPRequestHandler over scripted recv() chunks -> (bytes sent, send calls)"""
        from frappy.protocol.interface.tcp import TCPRequestHandler
        sock = FakeSock(chunks)
        quiet_handler()
        TCPRequestHandler(sock, ('127.0.0.1', 1), FakeTcpServer(self))
        return sock.out, sock.sends


def quiet_handler():
    """the request handler print()s tracebacks of internal errors: shadow print in that module
    (contextlib.redirect_stdout is process global and therefore unusable with several threads)"""
    import frappy.protocol.interface.handler as h
    h.print = lambda *a, **k: None


def parse_lines(out):
    """bytes sent by the handler -> list of (action, specifier, data | BadJson)"""
    res = []
    for line in out.split(b'\n')[:-1]:
        parts = line.decode('utf-8').split(' ', 2) + ['', '']
        data = None
        if parts[2] != '':
            data = json.loads(parts[2], parse_constant=_reject)
        res.append((parts[0], parts[1] or None, data))
    return res


def _reject(token):
    raise ValueError(f'non strict JSON token {token}')
