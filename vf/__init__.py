"""verification framework for SampleEnvironment/frappy (property-based testing / fuzzing)"""
