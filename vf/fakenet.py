"""fake socket / select modules beneath the real frappy.lib.asynconn.AsynTcp (used under vf.dsched)"""
import types
import socket as _socket
import select as _select

from vf import dsched


class DConnSock:
    """client side of a fake TCP connection; every operation is a yield point of the scheduler"""

    def __init__(self, net, addr, peer):
        self.net = net
        self.addr = addr
        self.peer = peer
        self.inbox = []
        self.timeout = 1.0
        self.state = 'open'      # open | peer-closed | reset | shut | closed
        self.sent = []
        peer.attach(self)

    # --- used by frappy
    def settimeout(self, t):
        self.timeout = t

    def gettimeout(self):
        return self.timeout

    def fileno(self):
        return 1000 + id(self) % 1000

    def setsockopt(self, *a):
        pass

    def recv(self, n):
        s = dsched.sched()
        s.yield_point('sock.recv')
        while True:
            if self.inbox:
                data = self.inbox.pop(0)
                if len(data) > n:
                    self.inbox.insert(0, data[n:])
                    data = data[:n]
                return data
            if self.state == 'reset':
                raise ConnectionResetError('reset by peer')
            if self.state in ('peer-closed', 'shut'):
                return b''
            if self.state == 'closed':
                raise OSError(9, 'Bad file descriptor')
            if not s.block(('data', self), self.timeout):
                raise _socket.timeout('timed out')

    def sendall(self, data):
        s = dsched.sched()
        s.yield_point('sock.send')
        if self.state in ('reset', 'closed', 'shut'):
            raise BrokenPipeError(32, 'Broken pipe')
        self.sent.append((s.now, data))
        if self.state == 'open':
            self.peer.on_data(self, data)

    send = sendall

    def shutdown(self, how):
        if self.state in ('open', 'peer-closed'):
            self.state = 'shut'
            self._wake()
            self.peer.on_close(self)

    def close(self):
        if self.state != 'closed':
            was = self.state
            self.state = 'closed'
            self._wake()
            if was == 'open':
                self.peer.on_close(self)

    # --- used by the scripted peer
    def push(self, data):
        if self.state == 'open':
            self.inbox.append(data)
            self._wake()

    def peer_close(self):
        if self.state == 'open':
            self.state = 'peer-closed'
            self._wake()

    def peer_reset(self):
        if self.state == 'open':
            self.state = 'reset'
            self._wake()

    def _wake(self):
        s = dsched.sched()
        if s:
            s.wake(lambda w: w == ('data', self))


class FakeNet:
    """stands in for the socket and select modules seen by frappy.lib.asynconn"""

    def __init__(self, peer_factory):
        self.peer_factory = peer_factory
        self.connections = []
        self.attempts = []
        self.connect_delay = 0
        self.attempt_threads = []     # name of the thread making each attempt
        self.socket = types.SimpleNamespace(**{k: getattr(_socket, k) for k in dir(_socket) if not k.startswith('__')})
        self.socket.create_connection = self.create_connection
        self.select = types.SimpleNamespace(select=self.do_select, error=_select.error)

    def create_connection(self, addr, timeout=None, **kwds):
        s = dsched.sched()
        if s:
            s.yield_point('sock.connect')
            if self.connect_delay:
                dsched.v_sleep(self.connect_delay)     # establishing a connection takes a moment
        self.attempts.append((s.now if s else None, addr))
        self.attempt_threads.append(getattr(s.cur, 'name', '?') if s else '?')
        peer = self.peer_factory(addr, len(self.attempts) - 1)
        if peer is None:
            raise ConnectionRefusedError(111, 'Connection refused')
        sock = DConnSock(self, addr, peer)
        if timeout is not None:
            sock.timeout = timeout
        self.connections.append(sock)
        return sock

    def do_select(self, rlist, wlist, xlist, timeout=None):
        ready = [r for r in rlist if getattr(r, 'inbox', None) or getattr(r, 'state', 'open') != 'open']
        return ready, [], []

    def patch_map(self):
        """for dsched.Patcher(extra=...)"""
        return {_socket: self.socket, _select: self.select}
