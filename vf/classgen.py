"""generated module classes (spec -> real class via type()) with recording drivers

module class spec:
 {'base': 'Module'|'Readable'|'Writable'|'Drivable',
  'params': [{'name', 'T', 'default' (plain valid value), 'readonly', 'constant', 'export': True|False|str,
              'write': None|'value'|'none'|'altered', 'read': None|'cached',
              'limits': None|'min'|'max'|'minmax'|'limits', 'check': None|number}],
  'cmds':   [{'name', 'arg': None|T, 'result': None|T, 'export': True|False|str, 'optional_args': [names]}]}

every driver call is recorded in cls.calls as (kind, name, canonical argument)
"""
import itertools

from hypothesis import strategies as st

from vf import refmodel as rm
from vf import specs

_n = itertools.count()
NUMERIC = ('double', 'int', 'scaled')


def plain_to_internal(T, v):
    """plain generated value -> what a frappy programmer would write (tuples, dicts)"""
    return v


def build_class(spec, name=None):
    from frappy.core import Module, Readable, Writable, Drivable, Parameter, Command
    from frappy.params import Limit
    from frappy.errors import RangeError
    bases = {'Module': Module, 'Readable': Readable, 'Writable': Writable, 'Drivable': Drivable}
    rec = {'calls': [], 'thresholds': {}, 'returns': {}}
    attrs = {'rec': rec}
    late_attrs = {}
    for p in spec['params']:
        dt = specs.build(p['T'])
        kw = {}
        if p.get('constant'):
            kw['constant'] = p['default']
        elif p.get('needscfg'):
            kw['needscfg'] = True
            kw['readonly'] = bool(p.get('readonly'))
            if p['needscfg'] == 'with-default':
                kw['default'] = p['default']    # declared as "to be configured" although the class gives a default
        else:
            kw['default'] = p['default']
            # ro_how == 'cfg': writable in the class, made read-only by the configuration (cfg_overrides)
            kw['readonly'] = bool(p.get('readonly')) and p.get('ro_how') != 'cfg'
        if p.get('export', True) is not True:
            kw['export'] = p['export']
        if p.get('update_unchanged') is not None:
            kw['update_unchanged'] = p['update_unchanged']
        attrs[p['name']] = Parameter(f"parameter {p['name']}", dt, **kw)
        pname = p['name']
        if p.get('write'):
            def wfunc(self, value, pname=pname, mode=p['write'], alt=p['default']):
                rec['calls'].append(('write', pname, rm.canon(value)))
                ret = rec['returns'].get(pname)
                if ret is not None:
                    return ret
                if mode == 'none':
                    return None
                if mode == 'altered':
                    return alt
                return value
            wfunc.__name__ = 'write_' + pname
            attrs['write_' + pname] = wfunc
        if p.get('read'):
            def rfunc(self, pname=pname):
                rec['calls'].append(('read', pname, None))
                if pname in rec.get('readfail', ()):
                    from frappy.errors import HardwareError
                    raise HardwareError(f'{pname} can not be read')      # puts the parameter into an error state
                return getattr(self, pname)
            rfunc.__name__ = 'read_' + pname
            attrs['read_' + pname] = rfunc
        lim = p.get('limits')
        # limits_in_subclass: the parameter (and its check_ hook) come from a base class, the limit parameters are added by the
        # derived class - there the automatic limit check is generated in addition to the inherited hook
        lattrs = late_attrs if p.get('limits_in_subclass') else attrs
        if lim in ('min', 'minmax'):
            lattrs[pname + '_min'] = Limit()
        if lim in ('max', 'minmax'):
            lattrs[pname + '_max'] = Limit()
        if lim == 'limits':
            lattrs[pname + '_limits'] = Limit()
        if p.get('check') is not None:
            rec['thresholds'][pname] = p['check']

            def cfunc(self, value, pname=pname, lim=lim and not p.get('limits_in_subclass')):
                rec['calls'].append(('check', pname, rm.canon(value)))
                if lim:   # a check_ method in the class defining the limits replaces the automatic one (documented)
                    self.checkLimits(value, pname)
                if value > rec['thresholds'][pname]:
                    raise RangeError(f'{pname} above threshold')
            cfunc.__name__ = 'check_' + pname
            attrs['check_' + pname] = cfunc
    for c in spec.get('cmds', []):
        arg = specs.build(c['arg']) if c.get('arg') else None
        res = specs.build(c['result']) if c.get('result') else None
        cname = c['name']
        kw = {}
        if c.get('export', True) is not True:
            kw['export'] = c['export']
        ns = {'rm': rm, 'cname': cname, 'resval': c.get('resval'), 'rec': rec}
        if c.get('arg') and c['arg']['k'] == 'struct':
            opt = set(c['arg'].get('optional', []))
            sig = ', '.join(f'{n}=None' if n in opt else n for n in sorted(c['arg']['members'], key=lambda n: n in opt))
            body = '{' + ', '.join(f'{n!r}: {n}' for n in c['arg']['members']) + '}'
        elif c.get('arg') and c['arg']['k'] == 'tuple':
            names = [f'a{i}' for i in range(len(c['arg']['of']))]
            sig = ', '.join(names)
            body = '[' + ', '.join(names) + ']'
        elif c.get('arg'):
            sig, body = 'a', 'a'
        else:
            sig, body = '', 'None'
        src = (f'def {cname}(self{", " if sig else ""}{sig}):\n'
               f'    """command {cname}"""\n'
               f'    rec["calls"].append(("do", cname, rm.canon({body})))\n'
               f'    return resval\n')
        exec(src, ns)   # noqa: generated function with a real signature (needed for struct arguments)
        attrs[cname] = Command(arg, result=res, **kw)(ns[cname])
    blist = [bases[spec.get('base', 'Module')]]
    if spec.get('feature'):
        from frappy.core import Feature
        from frappy.datatypes import FloatRange
        feat = type('Feat', (Feature,), {'featpar': Parameter('feature parameter', FloatRange(0, 10), default=1, readonly=False)})
        blist.insert(0, feat)
    if spec.get('optional'):
        # accessibles declared optional in a base class and not implemented here: they do not exist on the instances
        from frappy.datatypes import FloatRange as _FR
        oattrs = {}
        for oname in spec['optional']:
            if oname.startswith('oc'):
                oattrs[oname] = Command(optional=True, description='optional command')
            else:
                oattrs[oname] = Parameter('optional parameter', _FR(), optional=True)
        blist[-1] = type('WithOptional', (blist[-1],), oattrs)
    if spec.get('enablePoll') is False:
        attrs['enablePoll'] = False       # never polled: the poll thread exists for the start-up writes only
    if late_attrs:
        mid = type('WithoutLimits', tuple(blist), attrs)
        blist, attrs = [mid], dict(late_attrs, __doc__='adds limit parameters')
    if spec.get('indirect'):
        # everything (incl. a feature mixin) is inherited through an intermediate class
        mid = type('Generic', tuple(blist), attrs)
        return type(name or f'Gen{next(_n)}', (mid,), {'__doc__': 'derived without changes'})
    cls = type(name or f'Gen{next(_n)}', tuple(blist), attrs)
    return cls


DOUBLE = {'k': 'double', 'min': None, 'max': None, 'abs': 0.0, 'rel': 1.2e-7}
POLLINT = {'k': 'double', 'min': 0.1, 'max': 120.0, 'abs': 0.0, 'rel': 1.2e-7, 'unit': 's'}


def inherited(spec):
    """accessibles a generated class gets from its base: -> (params in wire order, commands)"""
    base = spec.get('base', 'Module')
    params = []
    if base != 'Module':
        params.append({'name': 'value', 'T': DOUBLE, 'default': 0.0, 'readonly': True, 'export': 'value'})
        params.append({'name': 'status', 'T': None, 'readonly': True, 'export': 'status'})
        if base != 'Readable':
            # unit '$' stays literally while the value has no unit (it may be set later, see test_deferred_main_unit)
            params.append({'name': 'target', 'T': dict(DOUBLE, unit='$'), 'default': 0.0, 'readonly': False, 'export': 'target', 'write': None})
        params.append({'name': 'pollinterval', 'T': POLLINT, 'default': 5.0, 'readonly': False, 'export': 'pollinterval', 'write': None})
    cmds = ['stop'] if base == 'Drivable' else []
    feat = [{'name': 'featpar', 'T': {'k': 'double', 'min': 0.0, 'max': 10.0, 'abs': 0.0, 'rel': 1.2e-7}, 'default': 1.0,
             'readonly': False, 'export': True, 'write': None}] if spec.get('feature') else []
    return params, cmds, feat


def wire_name(name, export, predefined=False):
    if export is False:
        return None
    if isinstance(export, str):
        return export
    return name if predefined else '_' + name


# -----------------------------------------------------------------------------------------
# strategies

@st.composite
def param_spec(draw, name, depth=2, safe_const=True, ro_variants=False):
    T = draw(specs.tree_spec(depth))
    p = {'name': name, 'T': T, 'default': draw(specs.valid_value(T, True))}
    if ro_variants and draw(st.integers(0, 2)) == 0:
        C = draw(configured_T(T, p['default']))
        if C and C != T:
            p['cfgT'] = C
    flavour = draw(st.sampled_from(['rw', 'rw', 'rw', 'rw', 'ro', 'const', 'hidden', 'custom', 'rw-nowrite']
                                   + (['ro-write', 'ro-cfg'] if ro_variants else [])))
    if flavour in ('ro-write', 'ro-cfg'):
        # read-only for clients although the class has a write method: declared so (internally writable parameter) or
        # switched to read-only in the configuration - the node must use cfg_overrides(spec)
        p.update(readonly=True, constant=False, export=True, write=draw(st.sampled_from(['value', 'altered'])),
                 read=draw(st.sampled_from([None, 'cached'])), ro_how='class+write' if flavour == 'ro-write' else 'cfg')
        return p
    if flavour == 'const' and safe_const and rm.kinds(T) & {'blob', 'scaled'}:
        # constants whose transport form differs from the internal one are C06's business
        flavour = 'ro'
    p['readonly'] = flavour == 'ro'
    p['constant'] = flavour == 'const'
    p['export'] = False if flavour == 'hidden' else (f'_x{name}' if flavour == 'custom' else True)
    if flavour in ('rw', 'hidden', 'custom'):
        p['write'] = draw(st.sampled_from(['value', 'value', 'none', 'altered']))
    else:
        p['write'] = None
    p['read'] = draw(st.sampled_from([None, 'cached']))
    if ro_variants and flavour in ('rw', 'ro', 'custom') and 'cfgT' not in p and draw(st.integers(0, 7)) == 0:
        p['cfg_constant'] = draw(specs.valid_value(T, True))     # the configuration turns the parameter into a constant
    if ro_variants and flavour in ('rw', 'hidden', 'custom', 'ro') and draw(st.integers(0, 5)) == 0:
        # the configuration hides, shows or renames the parameter
        p['cfg_export'] = draw(st.sampled_from([True, f'_cfg{name}'] if flavour == 'hidden' else [False, False, f'_cfg{name}']))
    if T['k'] in NUMERIC and flavour in ('rw', 'custom') and draw(st.booleans()):
        p['limits'] = draw(st.sampled_from(['min', 'max', 'minmax', 'limits']))
    if T['k'] in NUMERIC and flavour in ('rw', 'custom') and draw(st.integers(0, 3)) == 0:
        p['check'] = draw(specs.valid_value(T))
    if p.get('limits') and draw(st.integers(0, 2)) == 0:
        p['limits_in_subclass'] = True
    return p


@st.composite
def cmd_spec(draw, name):
    kind = draw(st.sampled_from(['none', 'leaf', 'tuple', 'struct', 'array']))
    arg = None
    c = {'name': name}
    if kind == 'leaf':
        arg = draw(specs.leaf_spec())
    elif kind == 'array':
        arg = {'k': 'array', 'of': draw(specs.leaf_spec()), 'min': 0, 'max': 3}
    elif kind == 'tuple':
        arg = {'k': 'tuple', 'of': draw(st.lists(specs.leaf_spec(), min_size=1, max_size=3))}
    elif kind == 'struct':
        names = draw(st.lists(st.sampled_from(['a', 'b', 'c', 'x_1', 'value']), min_size=1, max_size=3, unique=True))
        opt = draw(st.lists(st.sampled_from(names), unique=True, max_size=len(names)))
        arg = {'k': 'struct', 'members': {n: draw(specs.leaf_spec()) for n in names}, 'optional': sorted(opt)}
        c['optional_args'] = sorted(opt)
    c['arg'] = arg
    if draw(st.booleans()):
        c['result'] = draw(specs.leaf_spec())
        c['resval'] = draw(specs.valid_value(c['result']))
    else:
        c['result'] = None
        c['resval'] = draw(st.sampled_from([None, 5]))
    c['export'] = draw(st.sampled_from([True, True, True, False, f'_y{name}']))
    return c


def cfg_overrides(spec):
    """configuration entries a node needs for this class spec"""
    res = {}
    for p in spec['params']:
        if p.get('ro_how') == 'cfg':
            res.setdefault(p['name'], {})['readonly'] = True
        if 'cfg_export' in p:
            res.setdefault(p['name'], {})['export'] = p['cfg_export']
        if 'cfg_constant' in p:
            res.setdefault(p['name'], {})['constant'] = p['cfg_constant']
        C = p.get('cfgT')
        if C:
            ent = res.setdefault(p['name'], {})
            if C['k'] in ('double', 'int'):
                ent.update(min=C['min'], max=C['max'])
            elif C['k'] == 'scaled':
                ent.update(min=C['lo'] * C['scale'], max=C['hi'] * C['scale'])
            elif C['k'] == 'string':
                ent.update(maxchars=C['max'])
    return res


def effective_spec(spec):
    """the class spec as the configured instance shows it: limits and export names as overridden by cfg_overrides(spec)"""
    res = dict(spec, params=[])
    for p in spec['params']:
        q = dict(p, T=effective_T(p))
        if 'cfg_export' in p:
            q['export'] = p['cfg_export']
        if 'cfg_constant' in p:     # made a constant by the configuration: the class default does not count any more
            q.update(constant=True, readonly=True, default=p['cfg_constant'])
        res['params'].append(q)
    return res


def effective_T(p):
    """the datatype of the parameter on the instance: class datatype with the configured properties applied"""
    return p.get('cfgT') or p['T']


@st.composite
def configured_T(draw, T, default):
    """same datatype with limits moved by the configuration (wider or narrower than in the class, containing the default)"""
    k = T['k']
    if k == 'double' and abs(default) < 1e15:
        return dict(T, min=default - draw(st.sampled_from([0.0, 0.5, 1.0, 100.0, 1e6])),
                    max=default + draw(st.sampled_from([0.0, 0.5, 1.0, 100.0, 1e6])))
    if k == 'int':
        return dict(T, min=max(-(1 << 63), default - draw(st.sampled_from([0, 1, 100, 70000]))),
                    max=min(1 << 64, default + draw(st.sampled_from([0, 1, 100, 70000]))))
    if k == 'scaled':
        n = round(default / T['scale'])
        return dict(T, lo=n - draw(st.sampled_from([0, 1, 100, 70000])), hi=n + draw(st.sampled_from([0, 1, 100, 70000])))
    if k == 'string' and not T.get('text'):
        return dict(T, max=max(len(default), T['min']) + draw(st.sampled_from([0, 1, 5, 40])))
    return None


@st.composite
def class_spec(draw, max_params=4, max_cmds=2, depth=2, safe_const=True, ro_variants=False):
    nparams = draw(st.integers(1, max_params))
    ncmds = draw(st.integers(0, max_cmds))
    return {'base': 'Module',
            'params': [draw(param_spec(f'p{i}', depth, safe_const, ro_variants)) for i in range(nparams)],
            'cmds': [draw(cmd_spec(f'c{i}')) for i in range(ncmds)]}
