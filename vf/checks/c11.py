"""C11 - client: every caller gets its own reply or an error, under all interleavings

the real SecopClient over the real AsynTcp on a fake socket, all threads (callers, transmit, receive,
reconnect, scripted peer) managed by the deterministic scheduler with virtual time.
"""
import json

from hypothesis import strategies as st

from vf import dsched, fakenet
from vf.runner import drive

PROPERTY = 'C11'
LEVEL = 'exploration'
RULE = ('Hypothesis draws 2-4 caller threads with equal and distinct (action, specifier) keys incl. an unknown action, a peer plan (order in '
        'which outstanding requests are answered, interleaved updates, error replies, replies nobody asked for, delays, a connection drop: '
        'close / reset / silence at a generated point), optionally a local disconnect() at a generated virtual time, and a schedule (list of '
        'integers consumed wherever more than one thread can run). One evaluation = one scheduled session. non-trivial: >= 2 requests in '
        'flight at once, or a drop/shutdown with >= 1 waiting caller; distinct by trace hash.')
ASSUMPTIONS = ['interleavings at the granularity of synchronisation, queue and socket operations (not between arbitrary source lines)',
               'the peer answers heartbeat pings immediately unless it is in the "silent" state']

N_EXAMPLES = {'quick': 800, 'thorough': 12000}
KEYS = [['read', 'm:value'], ['read', 'm:value'], ['read', 'm:_p'], ['change', 'm:target'], ['do', 'm:go'], ['foo', 'bar'], ['read', 'm:value'],
        ['describe', '.'], ['describe', None], ['read', 'm:go']]      # (m:go is a command: the node will answer error_read)     # the peer answers 'describe' at once with 'describing . {...}'
DESCRIPTION = {'modules': {'m': {'accessibles': {
    'value': {'datainfo': {'type': 'double'}, 'readonly': True, 'description': 'v'},
    'target': {'datainfo': {'type': 'double'}, 'readonly': False, 'description': 't'},
    '_p': {'datainfo': {'type': 'double'}, 'readonly': True, 'description': 'p'},
    'go': {'datainfo': {'type': 'command'}, 'description': 'go'}}, 'description': 'm', 'interface_classes': ['Writable'], 'features': []}},
    'equipment_id': 'fake', 'description': 'scripted peer', 'firmware': 'x'}
REPLY = {'read': 'reply', 'change': 'changed', 'do': 'done'}


def shards(tier, seed):
    return [{'idx': i, 'n': N_EXAMPLES[tier]} for i in range(16)] + [{'idx': i, 'part': 'systematic'} for i in range(len(SYSTEMATIC))]


@st.composite
def session(draw):
    ncall = draw(st.integers(2, 4))
    callers = [{'key': draw(st.sampled_from(KEYS)), 'delay': draw(st.sampled_from([0, 0, 0, 0.5, 3.0]))} for _ in range(ncall)]
    lossy = draw(st.integers(0, 5)) == 0
    if lossy:
        # requests lost on the way (never answered): callers time out, requests with the same key issued before and after the
        # time-out - change requests carry the caller's number, so the peer knows whose request it answers
        callers = [{'key': ['change', 'm:target'] if draw(st.integers(0, 3)) else draw(st.sampled_from(KEYS)),
                    'delay': draw(st.sampled_from([0, 0.5, 3.0, 10.2, 10.5, 11.0, 12.5]))} for _ in range(ncall)]
    if draw(st.integers(0, 5)) == 0:
        # one caller hands over data which can not be sent (not JSON serialisable): its own mistake, the others are not concerned
        callers.insert(draw(st.integers(0, len(callers))), {'key': ['change', 'm:target'], 'delay': draw(st.sampled_from([0, 0, 0.5])),
                                                            'bad': draw(st.sampled_from(['unencodable', 'unhashable']))})
    plan = []
    for _ in range(draw(st.integers(0, 8))):
        kind = draw(st.sampled_from(['reply', 'reply', 'reply', 'reply-split', 'error', 'update', 'stray', 'sleep', 'sleep'] + (['ignore'] * 3 if lossy else [])))
        item = {'do': kind, 'k': draw(st.integers(0, 3))}
        if kind == 'sleep':
            item['dt'] = draw(st.sampled_from([0.1, 1.5, 6.0, 12.0]))
        plan.append(item)
    if lossy and draw(st.booleans()):
        # a request is lost at once, the peer stays quiet past the first time-outs, then answers what it has
        plan = [{'do': 'ignore', 'k': draw(st.integers(0, 3))}] + \
               [{'do': 'sleep', 'k': 0, 'dt': dt} for dt in draw(st.sampled_from([[12.0], [12.0, 1.5], [12.0, 1.5, 1.5], [6.0, 6.0, 1.5, 1.5], [12.0, 6.0]]))] + \
               [{'do': draw(st.sampled_from(['reply', 'reply', 'error', 'sleep'])), 'k': draw(st.integers(0, 3)), 'dt': 1.5} for _ in range(draw(st.integers(1, 4)))]
    drop = draw(st.sampled_from([None, None, None, 'close', 'reset', 'silent']))
    if drop:
        plan.insert(draw(st.integers(0, len(plan))), {'do': 'drop', 'how': drop})
    local = draw(st.sampled_from([None, None, None, 0.0, 0.2, 2.0, 7.0]))
    if drop in ('close', 'reset') and not lossy and draw(st.integers(0, 5)) == 0:
        return {'kind': 'session', 'callers': callers[:2], 'plan': plan, 'local_disconnect': None, 'reconnect_ok': True, 'slow_reconnect': True,
                'schedule': draw(st.lists(st.integers(0, 4), min_size=10, max_size=250))}
    if drop in ('close', 'reset') and not lossy and draw(st.integers(0, 2)) == 0:
        # the node is reachable again at once: the automatic reconnect succeeds - possibly while the user shuts down
        return {'kind': 'session', 'callers': callers, 'plan': plan, 'local_disconnect': local, 'reconnect_ok': True,
                'schedule': draw(st.lists(st.integers(0, 4), min_size=10, max_size=250))}
    if not lossy and draw(st.integers(0, 9)) == 0:
        return {'kind': 'session', 'callers': callers, 'plan': plan, 'local_disconnect': None, 'bad_idn': True,
                'schedule': draw(st.lists(st.integers(0, 4), min_size=10, max_size=250))}
    if not lossy and draw(st.integers(0, 7)) == 0:
        # a slow node: the reply to the first describe (during connect) takes several seconds, but less than the time-out
        return {'kind': 'session', 'callers': callers, 'plan': plan, 'local_disconnect': None, 'describe_delay': draw(st.sampled_from([2.0, 4.5, 6.5, 8.5])),
                'schedule': draw(st.lists(st.integers(0, 4), min_size=10, max_size=250))}
    if lossy and draw(st.booleans()):
        # an activated node: updates keep arriving (several per second), the connection is never idle
        return {'kind': 'session', 'callers': callers, 'plan': plan, 'local_disconnect': None, 'stream': True,
                'schedule': draw(st.lists(st.integers(0, 4), min_size=10, max_size=250))}
    return {'kind': 'session', 'callers': callers, 'plan': plan, 'local_disconnect': local,
            'schedule': draw(st.lists(st.integers(0, 4), min_size=10, max_size=250))}


class Peer:
    """scripted SEC node; one per connection attempt"""

    def __init__(self, world, index):
        self.world = world
        self.index = index
        self.sock = None
        self.buf = b''
        self.silent = False
        self.closed = False

    def attach(self, sock):
        self.sock = sock

    def on_close(self, sock):
        self.closed = True
        s = dsched.sched()
        if s:
            s.wake(lambda w: w == ('req', self.world))

    def on_data(self, sock, data):
        self.buf += data
        while b'\n' in self.buf:
            line, self.buf = self.buf.split(b'\n', 1)
            self.handle(line.decode())

    def push(self, text):
        if getattr(self, 'splitting', False):
            self.deferred.append(text)      # (a line being sent in two pieces is not interrupted by other lines)
            return
        if not self.silent and not self.closed:
            self.sock.push(text.encode() + b'\n')

    def handle(self, line):
        w = self.world
        if self.silent:
            return
        parts = line.split(' ', 2) + ['', '']
        action, ident = parts[0], parts[1]
        if action == '*IDN?':
            if w.case.get('bad_idn') and self.index == 0:
                def later(peer=self):      # (something else listens on that port - for now; it takes a moment to answer)
                    dsched.v_sleep(0.2)
                    peer.push('this is not a SECoP node')
                dsched.sched().spawn(later, _name='T:other-service')
            else:
                self.push('ISSE&SINE2020,SECoP,V2019-09-16,v1.0')
        elif action == 'describe':
            delay = w.case.get('describe_delay') if not w.described else 0
            if w.case.get('slow_reconnect') and self.index == 1:
                delay = 11.0      # the first reconnect attempt meets a node which is too slow (busy after its restart); later ones do not
            w.described = True
            if delay:
                # a slow node: the description takes a while (less than the time-out of the client)
                def later(peer=self):
                    dsched.v_sleep(delay)
                    peer.push('describing . ' + json.dumps(DESCRIPTION))
                dsched.sched().spawn(later, _name='T:slow-describe')
            else:
                self.push('describing . ' + json.dumps(DESCRIPTION))
        elif action == 'activate':
            self.push('update m:value [0.5, {"t": 1}]')
            self.push('active')
        elif action == 'ping':
            self.push(f'pong {ident} [null, {{"t": 1}}]')
        else:
            w.nonce += 1
            req = {'nonce': w.nonce, 'action': action, 'ident': ident, 'peer': self, 'answered': None, 't': dsched.v_time(), 'ta': None,
                   'caller': int(parts[2]) - 100 if action == 'change' and parts[2].isdigit() else None}
            w.requests.append(req)
            if self.index > 0 or w.plan_done:
                w.answer(req)      # sessions after a reconnect, and everything after the plan, are answered at once
            else:
                w.outstanding.append(req)
                s = dsched.sched()
                s.wake(lambda x: x == ('req', w))


class World:
    def __init__(self, case):
        self.case = case
        self.nonce = 0
        self.requests = []
        self.outstanding = []
        self.plan_done = False
        self.peers = []
        self.dropped = None
        self.drop_time = None
        self.drop_mark = None
        self.refuse = False
        self.stop_stream = False
        self.described = False

    def factory(self, addr, index):
        if self.refuse:
            return None
        p = Peer(self, index)
        self.peers.append(p)
        return p

    def answer(self, req, error=False, split=False):
        peer = req['peer']
        if req['answered'] or peer.closed or peer.silent:
            return
        n = req['nonce']
        req['ta'] = dsched.v_time()
        if split and req['action'] in REPLY:
            # the reply arrives in two pieces with a pause longer than one read slice of the connection (slow link, busy node)
            text = f'{REPLY[req["action"]]} {req["ident"]} [{n}, {{"t": 2}}]\n'.encode()
            req['answered'] = 'reply'
            if req in self.outstanding:
                self.outstanding.remove(req)
            peer.splitting, peer.deferred = True, []
            peer.sock.push(text[:len(text) // 2])
            dsched.v_sleep(1.6)
            if not peer.closed and not peer.silent:
                peer.sock.push(text[len(text) // 2:])
            peer.splitting = False
            for t_ in peer.deferred:
                peer.push(t_)
            req['ta'] = dsched.v_time()
            return
        if error:
            peer.push(f'error_{req["action"]} {req["ident"]} ["HardwareError", "nonce {n}", {{}}]')
            req['answered'] = 'error'
        elif req['action'] in REPLY:
            peer.push(f'{REPLY[req["action"]]} {req["ident"]} [{n}, {{"t": 2}}]')
            req['answered'] = 'reply'
        else:
            peer.push(f'{req["action"]}_reply {req["ident"]} [{n}, {{}}]')
            req['answered'] = 'reply'
        if req in self.outstanding:
            self.outstanding.remove(req)

    def run_plan(self, nexpected):
        """the peer's own thread"""
        s = dsched.sched()
        peer = None
        for item in self.case['plan']:
            while not self.peers:
                if not s.block(('req', self), 5.0):
                    break
            if not self.peers:
                break
            peer = self.peers[0]
            if peer.closed:
                break
            do = item['do']
            if do == 'sleep':
                dsched.v_sleep(item.get('dt', 0.1))
            elif do == 'update':
                peer.push('update m:_p [7.5, {"t": 3}]')
            elif do == 'ignore':
                # the request is lost: never answered (only requests whose caller is known, so that its time-out can be excused)
                if not self.outstanding:
                    s.block(('req', self), 2.0)
                cands = [r for r in self.outstanding if r['caller'] is not None]
                if cands:
                    req = cands[item['k'] % len(cands)]
                    req['answered'] = 'ignored'
                    self.outstanding.remove(req)
            elif do == 'stray':
                peer.push('reply m:nix [0, {}]')
                peer.push('nonsense' if item['k'] % 2 else 'error_foo nix ["InternalError", "unsolicited", {}]')
            elif do == 'drop':
                self.dropped = item['how']
                self.drop_time = dsched.v_time()
                self.drop_mark = len(s.trace)
                self.refuse = not self.case.get('reconnect_ok')      # reconnect attempts are refused from now on (or succeed)
                if item['how'] == 'close':
                    peer.closed = True
                    peer.sock.peer_close()
                elif item['how'] == 'reset':
                    peer.closed = True
                    peer.sock.peer_reset()
                else:
                    peer.silent = True
                break
            else:
                if not self.outstanding:
                    s.block(('req', self), 2.0)
                if self.outstanding:
                    req = self.outstanding[item['k'] % len(self.outstanding)]
                    self.answer(req, error=(do == 'error'), split=(do == 'reply-split'))
        self.plan_done = True
        for req in list(self.outstanding):
            self.answer(req)


def run_session(case, preempt=None):
    import frappy.client as fc
    import frappy.lib.asynconn as ac
    fc.SecopClient.__del__ = lambda self: None
    ac.AsynConn.__del__ = lambda self: None
    world = World(case)
    net = fakenet.FakeNet(world.factory)
    s = dsched.Sched(case.get('schedule', ()), preempt=preempt, horizon=400, step_limit=60000)
    out = {'sched': s, 'world': world, 'results': {}, 'error': None, 'net': net, 'disconnect_exc': None, 'final_exc': None}

    def main():
        client = fc.SecopClient('tcp://peer:1234', log=None)
        out['client'] = client
        if case.get('bad_idn'):
            # the first attempt meets something which is no SECoP node: it fails; the next attempt (the node is there now) starts anew
            try:
                client.connect()
                out['first_connect'] = 'succeeded'
            except Exception as e:   # noqa
                out['first_connect'] = repr(e)
        try:
            client.connect()
        except Exception as e:   # noqa
            out['connect_exc'] = e
            world.refuse = True
            try:
                client.disconnect()
            except Exception as e2:   # noqa
                out['final_exc'] = e2
            return
        threads = []
        peer_thread = s.spawn(world.run_plan, len(case['callers']), _name='T:peer')
        stream_thread = None
        if case.get('stream'):
            def stream():
                while not world.stop_stream and world.peers and not world.peers[0].closed and not world.peers[0].silent:
                    world.peers[0].push('update m:_p [7.5, {"t": 3}]')
                    dsched.v_sleep(0.4)
            stream_thread = s.spawn(stream, _name='T:stream')
        t_start = dsched.v_time()
        for i, c in enumerate(case['callers']):
            def caller(i=i, c=c):
                if c.get('delay'):
                    dsched.v_sleep(c['delay'])
                t0 = dsched.v_time()
                if c.get('stall') == 'tx_done':
                    # this caller is preempted between "the connection is there" and "the request is queued" until the
                    # transmit thread of that connection has ended (a schedule fixed by a condition, not by step numbers)
                    me, txt, orig_connect = s.cur, client._txthread, client.connect

                    def connect_then_stall(*args, **kwds):
                        result = orig_connect(*args, **kwds)
                        if s.cur is me and txt is not None:
                            s.stall(lambda: not txt.is_alive(), 30.0)
                        return result
                    client.connect = connect_then_stall
                try:
                    action, ident = c['key']
                    if c.get('bad') == 'unhashable':
                        r = client.request(action, [ident], 1)      # (a specifier which is no string)
                    else:
                        r = client.request(action, ident, {1, 2} if c.get('bad') else 100 + i if action == 'change' else None)
                    out['results'][i] = ('reply', r[0], r[1], r[2], t0, dsched.v_time())
                except Exception as e:   # noqa
                    out['results'][i] = ('exc', type(e).__name__, str(e), None, t0, dsched.v_time())
            threads.append(s.spawn(caller, _name=f'T:caller{i}'))
        if case.get('local_disconnect') is not None:
            dsched.v_sleep(case['local_disconnect'])
            out['local_time'] = dsched.v_time()
            out['local_mark'] = len(s.trace)
            try:
                client.disconnect()
            except Exception as e:   # noqa
                out['disconnect_exc'] = e
            out['local_done_mark'] = len(s.trace)
        for t in threads:
            t.join()
        peer_thread.join()
        if case.get('slow_reconnect'):
            # after a failed reconnect attempt the client keeps trying: some time later it is connected again and usable
            dsched.v_sleep(40.0)
            out['state_late'] = (client.state, client.online)
            t0 = dsched.v_time()
            try:
                r = client.request('read', 'm:value')
                out['probe'] = ('reply', r[0], dsched.v_time() - t0)
            except Exception as e:   # noqa
                out['probe'] = ('exc', type(e).__name__, str(e), dsched.v_time() - t0)
        world.stop_stream = True
        if stream_thread:
            stream_thread.join()
        world.refuse = True
        try:
            client.disconnect()
        except Exception as e:   # noqa
            out['final_exc'] = e
        out['end_time'] = dsched.v_time()

    with dsched.Patcher(extra=net.patch_map()):
        try:
            s.run(main)
        except (dsched.Deadlock, dsched.StepLimit) as e:
            out['error'] = e
    return out


def deadlock_shape(err):
    """who waits for what, without thread numbers (categorical part of the signature)"""
    import re
    try:
        items = err.args[0]
        if items and items[0][0] == 'virtual time horizon reached':
            items = items[0][1]
        return '|'.join(sorted(re.sub(r'T\d+:', '', f'{n}>{re.sub(chr(84) + r"[0-9]+:", "", str(w))}') for n, w in items))[:150]
    except Exception:   # noqa
        return 'unknown'


def check(ctx, case, preempt=None):
    ctx.ev()
    out = run_session(case, preempt)
    s, world = out['sched'], out['world']
    sub = dict(case)
    if preempt:
        sub['preempt'] = {str(k): v for k, v in preempt.items()}
    lt = out.get('local_time')
    if lt is not None and out.get('local_done_mark') is not None and not out['error']:
        # a request queued WHILE disconnect() is running (after it began, before it returned) is not "issued after the
        # disconnect": it is released by the shutdown like the ones waiting before, not left to its time-out
        for i_, v_ in out['results'].items():
            tid_ = next((t.ident for t in s.threads if t.name == f'T:caller{i_}'), None)
            queued_ = next((n for n, (who, tag) in enumerate(s.trace) if who == tid_ and tag == 'q.put.done'), None)
            if queued_ is not None and out['local_mark'] < queued_ < out['local_done_mark'] and v_[0] == 'exc' and v_[1] == 'TimeoutError' \
                    and v_[5] - lt > 4.0 and not case['callers'][i_].get('bad'):
                ctx.finding('request-queued-during-disconnect-left-to-its-time-out', sub,
                            f'caller {i_} {case["callers"][i_]["key"]}: queued while disconnect() was running, TimeoutError {v_[5] - lt:.1f} s after the shutdown began')
                return
    if world.dropped in ('close', 'reset') and getattr(world, 'drop_mark', None) is not None and lt is None and not out['error'] \
            and not case.get('slow_reconnect') and not case.get('reconnect_ok'):
        # the same for the teardown after a connection lost by the peer: it runs in the receive and transmit threads of that
        # connection and is over when both have ended; a request queued in between is released by it
        workers = [next((t for t in s.threads if w in t.name), None) for w in ('rxthread', 'txthread')]
        ends = [next((n for n, (who, tag) in enumerate(s.trace) if who == t.ident and tag == 'exit'), None) for t in workers if t]
        if len(ends) == 2 and None not in ends:
            for i_, v_ in out['results'].items():
                tid_ = next((t.ident for t in s.threads if t.name == f'T:caller{i_}'), None)
                queued_ = next((n for n, (who, tag) in enumerate(s.trace) if who == tid_ and tag == 'q.put.done'), None)
                if queued_ is not None and world.drop_mark < queued_ < max(ends) and v_[0] == 'exc' and v_[1] == 'TimeoutError' \
                        and v_[5] - world.drop_time > 4.0 and not case['callers'][i_].get('bad'):
                    ctx.finding('request-queued-during-teardown-left-to-its-time-out', sub,
                                f'caller {i_} {case["callers"][i_]["key"]}: queued while the lost connection was torn down, '
                                f'TimeoutError {v_[5] - world.drop_time:.1f} s after the drop')
                    return
    if lt is not None and (len(out['results']) < len(case['callers']) or any(v[4] >= lt for v in out['results'].values())):
        # a request issued after the user's disconnect() re-opens the connection (documented: "make sure we are connected"):
        # this is a new session, not a caller waiting at shutdown - outside the statement
        ctx.label('request-issued-after-local-disconnect')
        return
    if out['error'] is not None:
        conc = lt is not None and (len(out['results']) < len(case['callers']) or any(v[5] >= lt for v in out['results'].values()))
        ctx.finding(f'run:{type(out["error"]).__name__}:{deadlock_shape(out["error"])}:{"request-in-progress" if conc else "no-request-in-progress"}',
                    sub, repr(out['error'])[:500])
        return
    if out.get('connect_exc') is not None:
        ctx.finding(f'connect-fails:{type(out["connect_exc"]).__name__}', sub, repr(out['connect_exc'])[:300])
        return
    for key in ('disconnect_exc', 'final_exc'):
        if out[key] is not None:
            ctx.finding(f'disconnect-raises:{type(out[key]).__name__}', sub, repr(out[key])[:300])
            return
    if case.get('slow_reconnect') and world.dropped and 'probe' in out:
        # what the client does after a reconnect attempt which failed half way is outside the statement (it stays in state
        # 'reconnecting' on a connection which was never described and activated again - noted in notes/round2_suspects.md):
        # only recorded; the clauses about callers, shutdown and threads below apply as always
        ctx.label(f'after-failed-reconnect-attempt:state-{out.get("state_late", ("?",))[0]}:probe-{out["probe"][0]}')
    alive = [t.name for t in s.threads if t.state != 'done']
    if alive:
        ctx.finding('threads-alive-after-disconnect', sub, repr(alive))
        return
    ctx.ok('shutdown-clean')
    results = out['results']
    if len(results) != len(case['callers']):
        ctx.finding('caller-without-result', sub, f'{sorted(results)} of {len(case["callers"])}')
        return
    disturbed = world.dropped is not None or case.get('local_disconnect') is not None
    # answers may come later than the 10 s time-out (a reply in two pieces takes 1.6 s)
    slow_peer = sum(it.get('dt', 0) for it in case['plan'] if it['do'] == 'sleep') + 1.6 * sum(1 for it in case['plan'] if it['do'] == 'reply-split') >= 9.0
    seen_nonces = {}
    took_stray = False
    inflight = 0
    waiting_at_drop = 0
    for i, c in enumerate(case['callers']):
        kind, a, b, data, t0, t1 = results[i]
        action, ident = c['key']
        elapsed = t1 - t0
        if c.get('bad'):
            # a request which can not be sent never reaches the peer: its caller gets an error of whatever kind
            if kind == 'reply':
                ctx.finding('unsendable-request-answered', sub, f'caller {i}: {results[i][:4]!r}')
                return
            if elapsed > 13.0 + 1.5:
                ctx.finding('caller-blocked-too-long', sub, f'caller {i} (unsendable data): {elapsed:.1f} s')
                return
            ctx.label(f'unsendable-request:{a}')
            continue
        # (3) nobody waits longer than the time-outs of request(): 3 s for queueing + 10 s for the reply
        # (+ 10 s when the request first has to wait for a connection attempt of another thread which meets a slow node)
        if elapsed > 13.0 + 1.5 + (10.0 if case.get('slow_reconnect') else 0.0):
            ctx.finding('caller-blocked-too-long', sub, f'caller {i} {c["key"]}: {elapsed:.1f} s, result {results[i][:3]!r}')
            return
        if action == 'describe':
            # answered by the peer immediately (not part of the plan), with the specifier '.'
            if kind == 'reply' and a != 'describing':
                ctx.finding('caller-got-foreign-reply', sub, f'caller {i} asked {c["key"]}, got {results[i][:3]!r}')
                return
            if kind != 'reply' and a == 'TimeoutError' and not disturbed:
                ctx.finding(f'timeout-although-peer-answered:describe{"-dot" if ident == "." else ""}', sub,
                            f'caller {i} {c["key"]}: {b} after {elapsed:.1f} s; the peer sent "describing . {{...}}" at once')
                return
            continue
        if kind == 'reply':
            nonce = data[0] if isinstance(data, list) else None
            if action not in REPLY:
                # an experimental unknown request is answered by the next reply nobody else waits for (documented in the code:
                # "this may be a response to the last unknown request"): unsolicited or late replies are taken for it by design
                req = next((r for r in world.requests if r['nonce'] == nonce), None)
                if a == 'pong':
                    # ... but not the answer to the client's own heartbeat: somebody does wait for that one
                    ctx.finding('heartbeat-pong-handed-to-caller', sub, f'caller {i} asked {c["key"]}, got {results[i][:4]!r}')
                    return
                if req is None or req['action'] != action:
                    ctx.label('unknown-request-took-other-reply')
                    took_stray = True
                    continue
            req = next((r for r in world.requests if r['nonce'] == nonce), None)
            if req is None or req['action'] != action or req['ident'] != ident:
                ctx.finding('caller-got-foreign-reply', sub, f'caller {i} asked {c["key"]}, got {results[i][:4]!r}; peer requests {[(r["nonce"], r["action"], r["ident"]) for r in world.requests]!r}')
                return
            if req['answered'] != 'reply':
                ctx.finding('caller-got-reply-instead-of-error', sub, f'caller {i}: {results[i][:4]!r}')
                return
            if nonce in seen_nonces:
                ctx.finding('reply-handed-to-two-callers', sub, f'nonce {nonce}: callers {seen_nonces[nonce]} and {i}')
                return
            seen_nonces[nonce] = i
        else:
            if a == 'HardwareError' and b.startswith('nonce '):
                nonce = int(b.split()[1])
                req = next((r for r in world.requests if r['nonce'] == nonce), None)
                if req is None or req['action'] != action or req['ident'] != ident or req['answered'] != 'error':
                    ctx.finding('caller-got-foreign-error', sub, f'caller {i} asked {c["key"]}, got {results[i][:3]!r}')
                    return
                if nonce in seen_nonces:
                    ctx.finding('reply-handed-to-two-callers', sub, f'nonce {nonce}')
                    return
                seen_nonces[nonce] = i
            elif action not in REPLY and a in ('InternalError', 'HardwareError'):
                ctx.label('unknown-request-took-other-reply')
                took_stray = True
            elif a == 'TimeoutError':
                lossy = any(it['do'] == 'ignore' for it in case['plan'])
                mine = [r for r in world.requests if r.get('caller') == i]
                if mine and mine[0]['answered'] in ('reply', 'error') and mine[0]['ta'] is not None and not disturbed \
                        and mine[0]['ta'] < t0 + 10.0 - 0.5 and mine[0]['t'] >= t0:
                    # the peer answered THIS caller's request (change requests carry the caller's number) well within its time-out
                    ctx.finding('reply-lost:caller-timed-out-although-answered-in-time', sub,
                                f'caller {i} {c["key"]} asked at +0, its request reached the peer at +{mine[0]["t"] - t0:.2f} and was answered at '
                                f'+{mine[0]["ta"] - t0:.2f}; requests {[(r["nonce"], r["action"], r["caller"], r["answered"]) for r in world.requests]!r}')
                    return
                if lossy:
                    # a lost request, or one parked behind a lost request with the same key, legitimately ends in a time-out.
                    # but a request issued well after all earlier requests with its key have timed out is not parked any more:
                    # it must at least be transmitted (change requests carry the caller's number)
                    # (requests of the same key issued at the same moment count as earlier: this one may be parked behind them)
                    earlier = [results[j] for j, cj in enumerate(case['callers']) if j != i and cj['key'] == c['key'] and results[j][4] <= t0]
                    if action == 'change' and not c.get('bad') and not disturbed and not mine and earlier and \
                            all(e[0] == 'exc' and e[1] == 'TimeoutError' and e[5] + 1.5 < t0 for e in earlier):
                        ctx.finding('request-never-transmitted:after-earlier-timeout-of-same-key', sub,
                                    f'caller {i} {c["key"]} issued at +{t0:.1f}, after the earlier ones timed out at '
                                    f'{[round(e[5], 1) for e in earlier]}; the peer never saw it: {[(r["action"], r["caller"]) for r in world.requests]!r}')
                        return
                    ctx.label('timeout-after-lost-request')
                    if elapsed > 13.0 + 1.5:
                        ctx.finding('caller-blocked-too-long', sub, f'caller {i}: {elapsed:.1f}')
                        return
                    continue
                # only if the peer never answered a request that was transmitted (silent peer), never with a responsive peer
                if world.dropped != 'silent' and not disturbed and not slow_peer:
                    ctx.finding('timeout-although-peer-responsive', sub, f'caller {i} {c["key"]}: {b}; requests seen by the peer: {[(r["nonce"], r["action"], r["ident"], r["answered"]) for r in world.requests]!r}')
                    return
                if world.dropped != 'silent' and elapsed > 13.5:
                    ctx.finding('caller-blocked-too-long', sub, f'caller {i}: {elapsed:.1f}')
                    return
                # a caller already waiting when the connection was closed / shut down is released, it does not sit out its time-out
                ev = [t for t in (world.drop_time if world.dropped in ('close', 'reset') else None, out.get('local_time')) if t is not None]
                marks = [m for m in (world.drop_mark if world.dropped in ('close', 'reset') else None, out.get('local_mark')) if m is not None]
                tid = next(t.ident for t in s.threads if t.name == f'T:caller{i}')
                queued = next((n for n, (who, tag) in enumerate(s.trace) if who == tid and tag == 'q.put.done'), None)
                waiting = queued is not None and marks and queued < min(marks)     # its request was queued before the connection went away
                if not waiting:
                    ctx.label('request-in-progress-while-connection-lost')
                if ev and not slow_peer and waiting and t1 - min(ev) > 4.0:
                    ctx.finding('waiter-not-released-promptly', sub, f'caller {i} {c["key"]}: waiting since +0, connection gone at +{min(ev) - t0:.2f}, '
                                f'TimeoutError at +{elapsed:.2f}')
                    return
            elif a in ('ConnectionError', 'ConnectionClosed', 'CommunicationFailedError', 'ConnectionRefusedError', 'Full', 'BrokenPipeError', 'OSError', 'HardwareError'):
                if not disturbed:
                    ctx.finding(f'connection-error-without-drop:{a}', sub, f'caller {i}: {b}')
                    return
                # (4) released promptly after the drop / shutdown
                ev = [t for t in (world.drop_time if world.dropped in ('close', 'reset') else None, out.get('local_time')) if t is not None and t >= t0]
                # (only a caller whose request was queued before the connection went away is "waiting": a request issued when the
                # connection is already lost first tries to connect, one caller after the other)
                marks = [m for m in (world.drop_mark if world.dropped in ('close', 'reset') else None, out.get('local_mark')) if m is not None]
                tid = next(t.ident for t in s.threads if t.name == f'T:caller{i}')
                queued = next((n for n, (who, tag) in enumerate(s.trace) if who == tid and tag == 'q.put.done'), None)
                waiting = queued is not None and marks and queued < min(marks)
                if ev and t1 - min(ev) > 3.0 and a in ('ConnectionError',) and waiting:
                    ctx.finding('waiter-not-released-promptly', sub, f'caller {i}: drop/shutdown at +{min(ev) - t0:.2f}, released at +{elapsed:.2f}')
                    return
                waiting_at_drop += 1
            else:
                ctx.finding(f'unexpected-exception:{a}', sub, f'caller {i} {c["key"]}: {b}'[:300])
                return
    ctx.ok('callers-consistent')
    # every answer the peer gave to a transmitted request reached somebody (unless the connection was disturbed)
    if not disturbed and not slow_peer and not any(it['do'] == 'ignore' for it in case['plan']):
        for r in world.requests:
            if r['answered'] in ('reply', 'error') and r['nonce'] not in seen_nonces and not (took_stray and r['action'] not in REPLY):
                ctx.finding('answer-lost', sub, f'peer answered {r["action"]} {r["ident"]} (nonce {r["nonce"]}) but no caller received it; results {[v[:3] for v in results.values()]!r}')
                return
    sends = [t for t, _ in out['net'].connections[0].sent] if out['net'].connections else []
    concurrent = len({r['t'] for r in world.requests}) < len(world.requests) or any(len(world.outstanding) > 1 for _ in [0]) or \
        sum(1 for r in world.requests) >= 2 and max(r['t'] for r in world.requests) - min(r['t'] for r in world.requests) < 1.0
    if concurrent or (disturbed and waiting_at_drop):
        ctx.nt(s.trace_hash())
    ctx.label(f'drop:{world.dropped}', f'local:{case.get("local_disconnect") is not None}', f'switches:{min(s.switches // 20 * 20, 200)}')
    ctx.sample({'callers': case['callers'], 'plan': case['plan'], 'local_disconnect': case.get('local_disconnect'), 'switches': s.switches,
                'results': [v[:3] for _, v in sorted(results.items())]}, every=97)


SYSTEMATIC = [
    # two requests with the same key at once: the second is parked until the first is answered (by a reply, by an error)
    {'callers': [{'key': ['change', 'm:target'], 'delay': 0}, {'key': ['change', 'm:target'], 'delay': 0}],
     'plan': [{'do': 'reply', 'k': 0}, {'do': 'reply', 'k': 0}]},
    {'callers': [{'key': ['change', 'm:target'], 'delay': 0}, {'key': ['change', 'm:target'], 'delay': 0}, {'key': ['read', 'm:value'], 'delay': 0}],
     'plan': [{'do': 'error', 'k': 0}, {'do': 'update', 'k': 0}, {'do': 'reply', 'k': 0}, {'do': 'reply', 'k': 0}]},
    {'callers': [{'key': ['read', 'm:value'], 'delay': 0}, {'key': ['change', 'm:target'], 'delay': 0.5}],
     'plan': [{'do': 'reply', 'k': 0}, {'do': 'drop', 'how': 'close'}]},
    # the user shuts down while a caller issues its request
    {'callers': [{'key': ['read', 'm:value'], 'delay': 0}, {'key': ['change', 'm:target'], 'delay': 0.2}],
     'plan': [{'do': 'reply', 'k': 0}, {'do': 'sleep', 'dt': 1.5}], 'local_disconnect': 0.2},
    # a caller held between connect() and the queueing of its request until the transmit thread of the lost connection has ended
    {'callers': [{'key': ['read', 'm:_p'], 'delay': 0}, {'key': ['read', 'm:value'], 'delay': 0.5, 'stall': 'tx_done'}, {'key': ['do', 'm:go'], 'delay': 0}],
     'plan': [{'do': 'sleep', 'dt': 1.0}, {'do': 'drop', 'how': 'close'}]},
    # the same while the user shuts down
    {'callers': [{'key': ['read', 'm:value'], 'delay': 0}, {'key': ['change', 'm:target'], 'delay': 0.1, 'stall': 'tx_done'}],
     'plan': [{'do': 'sleep', 'dt': 1.5}, {'do': 'reply', 'k': 0}], 'local_disconnect': 0.5},
]


def systematic(ctx, which):
    """every schedule with one forced switch (to each of three other threads) at every decision point of a fixed session"""
    case = dict({'local_disconnect': None}, **SYSTEMATIC[which], kind='session', schedule=[])
    steps = run_session(case)['sched'].steps
    for step in range(1, steps + 1):
        for k in (1, 2, 3):
            check(ctx, case, preempt={step: k})
    ctx.extra.setdefault('one_preemption_complete', []).append(which)


def run_shard(ctx, shard):
    if shard.get('part') == 'systematic':
        systematic(ctx, shard['idx'])
        return
    drive(session(), lambda case: check(ctx, case), shard['n'], ctx.seed * 1000 + shard['idx'])


def run_case(ctx, case):
    try:
        ok = len(case['callers']) >= 1 and all(c['key'] in KEYS for c in case['callers']) and \
            all(i['do'] in ('reply', 'reply-split', 'error', 'update', 'stray', 'sleep', 'drop', 'ignore') for i in case['plan'])
    except (KeyError, TypeError):
        ok = False
    if ok:
        pre = case.get('preempt')
        check(ctx, {k: v for k, v in case.items() if k != 'preempt'}, {int(k): v for k, v in pre.items()} if pre else None)
