"""C12 - client cache and callbacks mirror the node end to end

(a) the real receive loop (SecopClient._SecopClient__rxthread) called synchronously on a scripted io:
    generated descriptions (from generated nodes) x message sequences x callback (un)registrations;
    a dict model predicts cache entries and callback invocations.
(b) end to end: generated node behind the real TCPServer on an ephemeral loopback port, real client with its
    real threads: every value written reaches the driver equal and comes back into the cache.
"""
import time
import json
import types
import threading

from hypothesis import strategies as st

from vf import refmodel as rm
from vf import specs, classgen
from vf.nodekit import Kit
from vf.runner import drive

PROPERTY = 'C12'
LEVEL = 'exploration'
RULE = ('(a) Hypothesis draws a node (1-2 generated module classes, parameters of all datatypes, one Writable with value/target) and a '
        'sequence of 1-40 operations: messages update / error_update / reply / changed / error_read / error_change for known and unknown '
        'identifiers incl. the module shorthand, with timestamps past/future/missing, malformed lines (broken JSON, wrong shapes, values '
        'not importable), registration and unregistration of updateItem/updateEvent callbacks on node, module and parameter level. '
        '(b) generated nodes served over real loopback TCP, every parameter written with generated valid values through '
        'SecopClient.setParameter and setParameterFromString. One evaluation = one message / one write. non-trivial: (a) sequence with an '
        'error<->value transition and a callback (un)registration in the middle, (b) non-default value of a nested type; distinct by case.')
ASSUMPTIONS = ['(a) the receive loop is driven in the harness thread with a scripted io object and a fixed clock',
               '(b) runs in real time with real threads: few cases, order-independent oracles only']

N_EXAMPLES = {'quick': 150, 'thorough': 3000}
N_E2E = {'quick': 3, 'thorough': 25}
NOW = 1_700_000_000.0


def shards(tier, seed):
    return [{'idx': i, 'n': N_EXAMPLES[tier], 'part': 'rx'} for i in range(13)] + [{'idx': 13 + i, 'n': N_E2E[tier], 'part': 'e2e'} for i in range(3)]


class FakeIO:
    def __init__(self, script):
        self.script = list(script)

    def readline(self, timeout=None):
        from frappy.lib.asynconn import ConnectionClosed
        while self.script:
            item = self.script.pop(0)
            if callable(item):
                item()
                continue
            return item
        raise ConnectionClosed('end of script')

    def send(self, data):
        pass

    def writeline(self, data):
        pass

    def shutdown(self):
        pass

    def disconnect(self):
        pass


@st.composite
def rx_case(draw):
    classes = [draw(classgen.class_spec(max_params=3, max_cmds=1, depth=2)) for _ in range(draw(st.integers(1, 2)))]
    for cs in classes:
        for p in cs['params']:
            p.pop('limits', None)
            p.pop('check', None)
    classes[0]['base'] = draw(st.sampled_from(['Module', 'Writable']))
    if draw(st.integers(0, 2)) == 0:
        # a custom accessible whose wire name is '_' + a predefined name (the client keeps the underscore then), also next to the real one
        cs = draw(st.sampled_from(classes))
        p = draw(st.sampled_from(cs['params']))
        if not p.get('constant') and p.get('export', True) is not False:
            p['export'] = draw(st.sampled_from(['_target', '_value', '_status', '_stop', '_pollinterval']))
    idents = []   # (module, wire, T)
    for i, cs in enumerate(classes):
        ip, _, _ = classgen.inherited(cs)
        for p in ip + cs['params']:
            w = classgen.wire_name(p['name'], p.get('export', True))
            if w and p.get('T'):
                idents.append((f'm{i}', w, p['T']))
    ops = []
    nreg = 0
    for _ in range(draw(st.integers(1, 40))):
        kind = draw(st.sampled_from(['msg', 'msg', 'msg', 'msg', 'bad', 'reg', 'unreg', 'unknown']))
        if kind == 'msg' and idents:
            m, w, T = draw(st.sampled_from(idents))
            action = draw(st.sampled_from(['update', 'update', 'error_update', 'reply', 'changed', 'error_read', 'error_change']))
            ident = f'{m}:{w}'
            if w in ('value', 'target') and draw(st.booleans()):
                ident = m     # shorthand
            t = draw(st.sampled_from([None, NOW - 100.5, NOW + 5000, NOW, 0.0, 12.25]))
            op = {'op': 'msg', 'action': action, 'ident': ident, 'mod': m, 'wire': w, 't': t}
            if action in ('reply', 'error_read') and draw(st.integers(0, 2)) == 0:
                # this line answers a readParameter() call; its caller resumes only after all later lines are processed
                op['reader'] = True
            if action.startswith('error_'):
                op['err'] = [draw(st.sampled_from(['HardwareError', 'CommunicationFailed', 'RangeError', 'NoSuchErrorClass', 'InternalError'])),
                             draw(st.sampled_from(['text', 'ValueError: inner', '', 'ü']))]
            else:
                good = draw(st.integers(0, 5)) > 0
                if good:
                    op['value'] = rm.to_wire(T, draw(specs.valid_value(T, True)))
                else:
                    op['value'] = draw(st.sampled_from([None, 'str', [1, 2, 3, 4, 5, 6, 7, 8, 9], {'zz': 1}, 1.5e99, -7777777]))
            ops.append(op)
        elif kind == 'unknown':
            ops.append({'op': 'msg', 'action': draw(st.sampled_from(['update', 'error_update', 'reply', 'changed', 'pong', 'done', 'describing'])),
                        'ident': draw(st.sampled_from(['nomod:value', 'm0:_nix', 'nomod', 'm9', '.', 'm0:'])), 'mod': None, 'wire': None,
                        't': None, 'value': 1, 'err': ['HardwareError', 'x']})
        elif kind == 'bad':
            ops.append({'op': 'raw', 'line': draw(st.sampled_from(['update m0:value', 'update m0:value [1', 'update m0:value 5', 'update m0:value [1]',
                                                                    'update m0:value {"a": 1}', 'error_update m0:value ["X"]', 'update', '',
                                                                    'update m0:value [1, 2]', 'error_update m0:value [1, 2, 3]',
                                                                    'update m0:value null', 'reply m0:value []', '\xff\xfe', 'changed m0 "x"'])).encode('latin-1')})
        elif kind == 'reg':
            level = draw(st.sampled_from(['node', 'module', 'param']))
            target = draw(st.sampled_from(idents)) if idents else ('m0', 'value', None)
            op = {'op': 'reg', 'id': nreg, 'level': level, 'mod': target[0], 'wire': target[1], 'cb': draw(st.sampled_from(['updateItem', 'updateEvent']))}
            flavour = draw(st.integers(0, 5))
            if flavour in (0, 1):
                # the callback unregisters itself from inside its life-th call after registration:
                # by raising UnregisterCallback or by calling unregister_callback
                op['life'] = draw(st.integers(1, 3))
                op['how'] = draw(st.sampled_from(['raise', 'call']))
            elif flavour == 2:
                op['first'] = True     # one-shot: raises UnregisterCallback on its very first call (maybe the immediate one)
            if draw(st.integers(0, 3)) == 0:
                nreg += 1
                op['pair_id'] = nreg   # registered together with a second callback in one register_callback call
            ops.append(op)
            nreg += 1
        elif nreg:
            ops.append({'op': 'unreg', 'id': draw(st.integers(0, nreg - 1))})
    return {'kind': 'rx', 'classes': classes, 'ops': ops}


def check_rx(ctx, case):
    import frappy.client as fc
    from frappy.datatypes import get_datatype
    from frappy.errors import make_secop_error
    classes = [classgen.build_class(cs, f'G{i}') for i, cs in enumerate(case['classes'])]
    kit = Kit({f'm{i}': {'cls': c, 'description': 'generated'} for i, c in enumerate(classes)})
    if kit.errors:
        return
    desc = json.loads(json.dumps(kit.describe()))
    fc.SecopClient.__del__ = lambda self: None
    client = fc.SecopClient('fake://1', log=None)
    client._init_descriptive_data(desc)
    client._shutdown.set()
    client.activate = False
    # reference maps
    dts, names = {}, {}
    for m, md in desc['modules'].items():
        for a, ad in md['accessibles'].items():
            if ad['datainfo'].get('type') != 'command':
                dts[f'{m}:{a}'] = get_datatype(ad['datainfo'], a)
                names[f'{m}:{a}'] = (m, a[1:] if a.startswith('_') and a[1:] not in fc.SecopClient.PREDEFINED_NAMES else a)
    model = {}            # (module, param) -> (value canon, timestamp, readerror)
    order = []            # cache insertion order
    regs = {}             # id -> dict(level, key, cb, calls)
    expected = {}         # id -> expected calls
    errors_seen = []
    client.register_callback(None, handleError=lambda exc: errors_seen.append(exc))
    state = {'errs': 0, 'transition': False, 'midreg': False, 'nmsg': 0}
    findings = []
    readers = []

    def key_of(r):
        return None if r['level'] == 'node' else r['mod'] if r['level'] == 'module' else names.get(f'{r["mod"]}:{r["wire"]}', (r['mod'], r['wire']))

    def make_callback(rid, level, mod, wireparam, cbname, life=None, how=None, first_call_unregisters=False):
        r = {'level': level, 'mod': mod, 'wire': wireparam, 'cbname': cbname, 'calls': [], 'active': True,
             'life': life, 'how': how, 'seen': 0, 'exp_seen': 0, 'registering': True, 'first': first_call_unregisters, 'ncalls': 0}
        key = key_of(r)

        def cbfunc(*args, r=r):
            if r['cbname'] == 'updateItem':
                m, p, item = args
                r['calls'].append((m, p, rm.canon(item.value), item.timestamp, item.readerror))
                if client.cache.get((m, p)) is not item:
                    state['stale'] = (m, p)     # a callback looking into the cache would see the previous entry
            else:
                m, p, v, t, e = args
                r['calls'].append((m, p, rm.canon(v), t, e))
            r['ncalls'] += 1
            if r['first'] and r['ncalls'] == 1:
                # a one-shot callback: unregisters itself on its first call, also when that is the immediate call at registration
                state['selfunreg'] = state.get('selfunreg', 0) + 1
                raise fc.UnregisterCallback()
            if r['life'] and not r['registering']:
                r['seen'] += 1
                if r['seen'] == r['life']:
                    state['selfunreg'] = state.get('selfunreg', 0) + 1
                    if r['how'] == 'raise':
                        raise fc.UnregisterCallback()
                    client.unregister_callback(r['key'], **{r['cbname']: r['func']})
        cbfunc.__name__ = cbname
        r['func'] = cbfunc
        r['key'] = key
        regs[rid] = r
        # immediate calls with the cached state
        init = []
        for mp in order:
            if key is None or key == mp[0] or key == mp:
                init.append(mp + model[mp])
        expected[rid] = init
        if r['first']:
            if init:
                r['active'] = False      # raised during the immediate calls: never appended (the remaining immediate calls still happen)
            else:
                r['life'], r['how'] = 1, 'raise'    # first call will be the first message
                r['first'] = False
        return r, cbfunc

    def mk_reg(op):
        def hook():
            r, cbfunc = make_callback(op['id'], op['level'], op['mod'], op['wire'], op['cb'], op.get('life'), op.get('how'), op.get('first'))
            funcs = {op['cb']: cbfunc}
            rs = [r]
            if op.get('pair_id') is not None:
                # a second callback (of the other kind) registered in the same call, after the first
                other = 'updateEvent' if op['cb'] == 'updateItem' else 'updateItem'
                r2, cbfunc2 = make_callback(op['pair_id'], op['level'], op['mod'], op['wire'], other)
                funcs[other] = cbfunc2
                rs.append(r2)
                state['pairreg'] = state.get('pairreg', 0) + 1
            client.register_callback(r['key'], **funcs)
            for x in rs:
                x['registering'] = False
            if state['nmsg']:
                state['midreg'] = True
        return hook

    def mk_unreg(op):
        def hook():
            r = regs.get(op['id'])
            if r and r['active']:
                r['active'] = False
                client.unregister_callback(r['key'], **{r['cbname']: r['func']})
                state['midreg'] = True
        return hook
    script = []
    plan = []     # per line: what the model expects (evaluated lazily in order via hooks)

    def mk_expect(op):
        """hook run right BEFORE the line is processed: update the model (it is sequential, so this is equivalent)"""
        def hook():
            state['nmsg'] += 1
            if op['op'] == 'raw':
                plan.append(('raw', op))
                return
            action, ident = op['action'], op['ident']
            if action not in ('update', 'error_update', 'reply', 'changed', 'error_read'):
                plan.append(('ignored', op))
                return
            full = ident if ident in dts else None
            if full is None and ':' not in ident:
                cand = f'{ident}:target' if action == 'changed' else f'{ident}:value'
                full = cand if cand in dts else None
            if full is None:
                plan.append(('unknown', op))
                return
            mp = names[full]
            t = NOW if op['t'] is None else min(NOW, op['t'])
            if action.startswith('error_'):
                entry = (None, t, make_secop_error(*op['err']))
            else:
                try:
                    entry = (rm.canon(dts[full].import_value(json.loads(json.dumps(op['value'])))), t, None)
                except Exception:   # noqa - not importable: the message is malformed for this parameter
                    plan.append(('malformed', op))
                    state['errs'] += 1
                    return
            prev = model.get(mp)
            if prev is not None and (prev[2] is None) != (entry[2] is None):
                state['transition'] = True
            if mp not in model:
                order.append(mp)
            model[mp] = entry
            for rid, r in regs.items():
                if r['active'] and (r['key'] is None or r['key'] == mp[0] or r['key'] == mp):
                    expected[rid].append(mp + entry)
                    if r['life']:
                        r['exp_seen'] += 1
                        if r['exp_seen'] == r['life']:
                            r['active'] = False     # it takes itself off the list during this call
            plan.append(('applied', op))
        return hook
    for op in case['ops']:
        if op['op'] == 'reg':
            script.append(mk_reg(op))
        elif op['op'] == 'unreg':
            script.append(mk_unreg(op))
        elif op['op'] == 'raw':
            script.append(mk_expect(op))
            script.append(op['line'])
        else:
            if op['action'].startswith('error_'):
                q = {} if op['t'] is None else {'t': op['t']}
                data = [op['err'][0], op['err'][1], q]
            else:
                data = [op['value'], {} if op['t'] is None else {'t': op['t']}]
            line = f'{op["action"]} {op["ident"]} {json.dumps(data)}'.encode('utf-8')
            script.append(mk_expect(op))
            if op.get('reader') and op['ident'] in dts:
                def add_reader(op=op):
                    # what queue_request and the tx thread do for client.readParameter(...)
                    entry = [('read', op['ident'], None), fc.Event(), None]
                    client.active_requests[('reply', op['ident'])] = entry
                    readers.append((names[op['ident']], entry))
                script.append(add_reader)
            script.append(line)
    client.io = FakeIO(script)
    client._running = True
    real_time = fc.time
    fc.time = types.SimpleNamespace(time=lambda: NOW, sleep=lambda s: None)
    try:
        client._SecopClient__rxthread()
    except Exception as e:   # noqa
        ctx.finding(f'rx:loop-raises:{type(e).__name__}', case, repr(e)[:200])
        return
    finally:
        fc.time = real_time
    # the callers of readParameter resume now: they return what is cached, the cache is as the messages left it
    for (mod, par), entry in readers:
        if not entry[1].is_set():
            findings.append(('rx:reader-not-released', f'{mod}:{par}'))
            continue
        client.queue_request = lambda *a, _e=entry: _e
        try:
            client.readParameter(mod, par)
        except Exception as e:   # noqa - readParameter returns errors as cache entries
            if not plan or all(k != 'malformed' for k, _ in plan):
                findings.append((f'rx:readParameter-raises:{type(e).__name__}', repr(e)[:200]))
        finally:
            del client.queue_request
        state['readers'] = state.get('readers', 0) + 1
    for sig, detail in findings:
        ctx.finding(sig, case, detail)
    if findings:
        return
    nmsgs = sum(1 for op in case['ops'] if op['op'] in ('msg', 'raw'))
    ctx.ev(max(nmsgs, 1))
    if client.io is not None and client.io.script:
        ctx.finding('rx:loop-ended-early', case, f'{len(client.io.script)} script items left')
        return
    # cache equals the model
    got = {k: (rm.canon(v.value), v.timestamp, v.readerror) for k, v in client.cache.items()}
    if set(got) != set(model):
        ctx.finding('rx:cache-keys-differ', case, f'{sorted(got)} vs {sorted(model)}')
    else:
        for k in model:
            if not same_entry(got[k], model[k]):
                what = 'timestamp-in-future' if got[k][1] and got[k][1] > NOW else 'timestamp' if got[k][1] != model[k][1] else 'value-or-error'
                ctx.finding(f'rx:cache-entry-differs:{what}', case, f'{k}: {got[k]!r} vs {model[k]!r}')
                break
        else:
            ctx.ok('cache-mirrors-messages')
    # callbacks: exactly once per relevant message, in arrival order, with the entry
    for rid, r in regs.items():
        exp = expected[rid]
        if len(r['calls']) != len(exp) or any(c[:2] != e[:2] or not same_entry(c[2:], e[2:]) for c, e in zip(r['calls'], exp)):
            what = 'count' if len(r['calls']) != len(exp) else 'content-or-order'
            ctx.finding(f'rx:callback-{what}:{r["level"]}:{r["cbname"]}', case, f'callback {rid} ({r["level"]} {r["key"]}): got {r["calls"][:6]!r} expected {exp[:6]!r}')
            break
    else:
        ctx.ok('callbacks-once-in-order')
    if state.get('stale'):
        ctx.finding('rx:callback-before-cache-update', case, repr(state['stale']))
    nbad = sum(1 for kind, _ in plan if kind == 'malformed')
    raw_bad = sum(1 for kind, op in plan if kind == 'raw')
    if len(errors_seen) < nbad:
        ctx.finding('rx:malformed-message-not-reported', case, f'{len(errors_seen)} handleError calls for {nbad} unimportable values')
    else:
        ctx.ok('malformed-reported')
    if state['transition'] and state['midreg']:
        ctx.nt(('rx', repr(case['ops']), json.dumps(case['classes'], sort_keys=True, default=repr)))
    for kind, _ in plan:
        ctx.label(f'msg:{kind}')
    if state.get('readers'):
        ctx.label('rx:readParameter-caller-resumed-late')
    if state.get('selfunreg'):
        ctx.label('rx:callback-unregistered-itself')
    if state.get('pairreg'):
        ctx.label('rx:two-callbacks-in-one-registration')
    ctx.sample({'ops': case['ops'][:8], 'n_ops': len(case['ops'])}, every=97)


def same_entry(a, b):
    va, ta, ea = a
    vb, tb, eb = b
    if (ea is None) != (eb is None):
        return False
    if ea is not None and (type(ea) is not type(eb) or ea.args != eb.args):
        return False
    return repr(va) == repr(vb) and ta == tb


# ----------------------------------------------------------------------------------------------
# end to end over real TCP

@st.composite
def e2e_case(draw):
    classes = []
    for i in range(2):
        cs = draw(classgen.class_spec(max_params=6, max_cmds=0, depth=2))
        for p in cs['params']:
            p.pop('limits', None)
            p.pop('check', None)
            if p.get('constant'):
                p['constant'] = False
                p['readonly'] = False
            p['readonly'] = False
            p['export'] = True
            p['write'] = draw(st.sampled_from(['value', 'value', 'none', 'altered']))
            p['values'] = [draw(specs.valid_value(p['T'], True)) for _ in range(3)]
        if cs['params'] and draw(st.integers(0, 2)) == 0:
            # a struct inside a struct, the inner one with an optional member (for the partial write at the end)
            p = cs['params'][0]
            inner = {'k': 'struct', 'members': {'a': {'k': 'int', 'min': 0, 'max': 9}, 'b': {'k': 'int', 'min': 0, 'max': 9}}, 'optional': ['b']}
            p['T'] = {'k': 'struct', 'members': {'inner': inner, 'x': {'k': 'int', 'min': 0, 'max': 9}}, 'optional': []}
            p['default'] = {'inner': {'a': 0, 'b': 0}, 'x': 0}
            p['values'] = [{'inner': {'a': draw(st.integers(1, 9)), 'b': draw(st.integers(1, 9))}, 'x': draw(st.integers(0, 9))} for _ in range(3)]
        classes.append(cs)
    return {'kind': 'e2e', 'classes': classes}


def check_e2e(ctx, case):
    import frappy.client as fc
    from frappy.protocol.interface.tcp import TCPServer
    fc.SecopClient.__del__ = lambda self: None
    classes = [classgen.build_class(cs, f'G{i}') for i, cs in enumerate(case['classes'])]
    kit = Kit({f'm{i}': {'cls': c, 'description': 'generated'} for i, c in enumerate(classes)})
    if kit.errors:
        return
    srv = TCPServer('tcp', kit.log.getChild('tcp'), {'uri': 'tcp://0'}, kit)
    port = srv.server_address[1]
    th = threading.Thread(target=srv.serve_forever, kwargs={'poll_interval': 0.05}, daemon=True)
    th.start()
    client = fc.SecopClient(f'tcp://127.0.0.1:{port}', log=None)
    try:
        client.connect(5)
        for i, cs in enumerate(case['classes']):
            mname = f'm{i}'
            rec = classes[i].rec
            mobj = kit.modules[mname]
            for p in cs['params']:
                dt = client.modules[mname]['parameters'][p['name']]['datatype']
                for n, v in enumerate(p.get('values', [])):
                    ctx.ev()
                    sub = {'kind': 'e2e', 'classes': [dict(c, params=[q for q in c['params'] if c is not cs or q is p]) if c is cs else dict(c, params=c['params'][:1]) for c in case['classes']]}
                    want = rm.canon(mobj.parameters[p['name']].datatype.validate(v))
                    if want != rm.canon(rm.default_value(p['T'])) and rm.depth(p['T']) >= 1:
                        ctx.nt(('e2e', specs.tojson(p['T']), specs.tojson(v)))
                    before = len(rec['calls'])
                    # the text form of float leaves is rounded (fmtstr): it may even fall outside the limits, so the
                    # string path is exercised for types without double/scaled leaves only
                    how = 'string' if n == 2 and not (rm.kinds(p['T']) & {'double', 'scaled'}) else 'value'
                    try:
                        if how == 'value':
                            item = client.setParameter(mname, p['name'], dt.validate(v))
                        else:
                            text = str(fc.CacheItem(dt.validate(v), None, None, dt))
                            item = client.setParameterFromString(mname, p['name'], text)
                    except Exception as e:   # noqa
                        ctx.finding(f'e2e:{how}:write-fails:{p["T"]["k"]}:{type(e).__name__}', sub, f'{v!r}: {e!r}'[:300])
                        if isinstance(e, (TimeoutError, ConnectionError)):
                            return     # every further request would wait for its time-out in real time
                        continue
                    calls = [c for c in rec['calls'][before:] if c[0] == 'write' and c[1] == p['name']]
                    exact = how == 'value' or not (rm.kinds(p['T']) & {'double', 'scaled'})
                    if p.get('write'):
                        if len(calls) != 1:
                            ctx.finding(f'e2e:{how}:driver-calls:{len(calls)}', sub, repr(calls)[:200])
                            continue
                        if exact and calls[0][2] != want:
                            ctx.finding(f'e2e:{how}:driver-got-other-value:{p["T"]["k"]}', sub, f'caller passed {want!r}, driver got {calls[0][2]!r}')
                            continue
                    cache = rm.canon(item.value)
                    node = rm.canon(mobj.parameters[p['name']].value)
                    if cache != node or item.readerror:
                        ctx.finding(f'e2e:{how}:cache-differs-from-node:{p["T"]["k"]}', sub, f'client cache {cache!r} ({item.readerror!r}), node cache {node!r}')
                    else:
                        ctx.ok('e2e-write-roundtrip')
        # a struct inside a struct, written with one of its optional members left out (the node takes it from the current
        # value): the client sends what the caller passed, the caches agree afterwards
        for i, cs in enumerate(case['classes']):
            mname = f'm{i}'
            mobj = kit.modules[mname]
            for p in cs['params']:
                T = p['T']
                if T['k'] != 'struct' or not p.get('values'):
                    continue
                full = p['values'][0]
                part = None
                for n_, t_ in T['members'].items():
                    if t_['k'] == 'struct' and t_.get('optional') and isinstance(full.get(n_), dict) and t_['optional'][0] in full[n_]:
                        part = dict(full, **{n_: {k_: v_ for k_, v_ in full[n_].items() if k_ != t_['optional'][0]}})
                        break
                if part is None:
                    continue
                ctx.ev()
                sub = {'kind': 'e2e', 'classes': [dict(c, params=[q for q in c['params'] if q is p]) if c is cs else dict(c, params=c['params'][:1]) for c in case['classes']]}
                try:
                    client.setParameter(mname, p['name'], full)
                    item = client.setParameter(mname, p['name'], part)
                except Exception as e:   # noqa
                    ctx.finding(f'e2e:nested-partial:write-fails:{type(e).__name__}', sub, f'{part!r}: {e!r}'[:300])
                    if isinstance(e, (TimeoutError, ConnectionError)):
                        return
                    continue
                if rm.canon(item.value) != rm.canon(mobj.parameters[p['name']].value) or item.readerror:
                    ctx.finding('e2e:nested-partial:cache-differs-from-node', sub, f'{rm.canon(item.value)!r} vs {rm.canon(mobj.parameters[p["name"]].value)!r}')
                else:
                    ctx.ok('e2e-nested-partial')
                    ctx.label('e2e:nested-partial-struct')
        ctx.sample({'e2e-node': [[p['T'] for p in cs['params']] for cs in case['classes']]}, every=1)
        proxy_part(ctx, case, classes, kit, port)
    except Exception as e:   # noqa
        ctx.finding(f'e2e:session-fails:{type(e).__name__}', case, repr(e)[:300])
    finally:
        try:
            client.disconnect()
        except Exception as e:   # noqa
            ctx.finding(f'e2e:disconnect-raises:{type(e).__name__}', case, repr(e)[:200])
        srv.shutdown()
        srv.server_close()
        th.join(2)


def proxy_part(ctx, case, classes, kit, port):
    """the same writes through a proxy node (frappy.proxy) in front of the node: client -> proxy -> node -> driver"""
    import frappy.client as fc
    from frappy.proxy import proxy_class
    from frappy.protocol.interface.tcp import TCPServer
    from frappy.lib.multievent import MultiEvent
    pcfg = {f'm{i}': {'cls': proxy_class(c, f'P{i}'), 'description': 'proxy module', 'uri': f'tcp://127.0.0.1:{port}', 'module': f'm{i}'}
            for i, c in enumerate(classes)}
    pkit = Kit(pcfg, equipment_id='proxy')
    if pkit.errors:
        ctx.finding('proxy:node-refused', case, repr(pkit.errors)[:300])
        return
    ev = MultiEvent(5)
    for m in pkit.modules.values():
        m.startModule(ev)
    ev.wait(5)
    psrv = TCPServer('tcp', pkit.log.getChild('tcp'), {'uri': 'tcp://0'}, pkit)
    th = threading.Thread(target=psrv.serve_forever, kwargs={'poll_interval': 0.05}, daemon=True)
    th.start()
    client = fc.SecopClient(f'tcp://127.0.0.1:{psrv.server_address[1]}', log=None)
    try:
        client.connect(5)
        for i, cs in enumerate(case['classes']):
            mname = f'm{i}'
            rec = classes[i].rec
            mobj = kit.modules[mname]
            for p in cs['params']:
                dt = client.modules[mname]['parameters'][p['name']]['datatype']
                for v in p.get('values', [])[:2]:
                    ctx.ev()
                    sub = {'kind': 'e2e', 'classes': [dict(c, params=[q for q in c['params'] if q is p]) if c is cs else dict(c, params=c['params'][:1]) for c in case['classes']]}
                    want = rm.canon(mobj.parameters[p['name']].datatype.validate(v))
                    before = len(rec['calls'])
                    try:
                        item = client.setParameter(mname, p['name'], dt.validate(v))
                    except Exception as e:   # noqa
                        ctx.finding(f'proxy:write-fails:{p["T"]["k"]}:{type(e).__name__}', sub, f'{v!r}: {e!r}'[:300])
                        if isinstance(e, (TimeoutError, ConnectionError)):
                            return
                        continue
                    calls = [c for c in rec['calls'][before:] if c[0] == 'write' and c[1] == p['name']]
                    if p.get('write') and (len(calls) != 1 or calls[0][2] != want):
                        ctx.finding(f'proxy:driver-got-other-value:{p["T"]["k"]}', sub, f'caller passed {want!r}, driver calls {calls!r}'[:300])
                        continue
                    cache = rm.canon(item.value)
                    node = rm.canon(mobj.parameters[p['name']].value)
                    if cache != node or item.readerror:
                        ctx.finding(f'proxy:cache-differs-from-node:{p["T"]["k"]}', sub, f'cache of the proxy\'s client {cache!r} ({item.readerror!r}), node cache {node!r}')
                    else:
                        ctx.ok('proxy-write-roundtrip')
            # a read error of the node is handed through unchanged - also when the parameter is read again and again
            for p in cs['params']:
                if not p.get('read') or p.get('export', True) is not True:
                    continue
                ctx.ev()
                sub = {'kind': 'e2e', 'classes': [dict(c, params=[q for q in c['params'] if q is p]) if c is cs else dict(c, params=c['params'][:1]) for c in case['classes']]}
                rec.setdefault('readfail', set()).add(p['name'])
                try:
                    try:
                        getattr(mobj, 'read_' + p['name'])()      # the driver notices the failure (poll): announced to the proxy
                    except Exception:   # noqa
                        pass
                    time.sleep(0.15)
                    texts = []
                    for _ in range(3):
                        try:
                            item = client.readParameter(mname, p['name'])
                        except Exception as e:   # noqa
                            ctx.finding(f'proxy:read-raises:{type(e).__name__}', sub, repr(e)[:200])
                            return
                        texts.append((type(item.readerror).__name__, str(item.readerror)) if item is not None else None)
                    direct = mobj.parameters[p['name']].readerror
                    want = (type(direct).__name__, str(direct))
                    if any(t != want for t in texts):
                        ctx.finding('proxy:read-error-changed' + (':growing' if len(set(texts)) > 1 else ''), sub, f'node: {want!r}; through the proxy: {texts!r}'[:400])
                    else:
                        ctx.ok('proxy-read-error')
                finally:
                    rec['readfail'].discard(p['name'])
                break
    finally:
        try:
            client.disconnect()
        except Exception:   # noqa
            pass
        psrv.shutdown()
        psrv.server_close()
        th.join(2)
        for m in pkit.modules.values():
            if hasattr(m, 'secnode') and hasattr(m.secnode, 'disconnect'):
                try:
                    m.secnode.disconnect()
                except Exception:   # noqa
                    pass


def run_shard(ctx, shard):
    if shard['part'] == 'rx':
        drive(rx_case(), lambda case: check_rx(ctx, case), shard['n'], ctx.seed * 1000 + shard['idx'])
    else:
        drive(e2e_case(), lambda case: check_e2e(ctx, case), shard['n'], ctx.seed * 1000 + shard['idx'])


def run_case(ctx, case):
    if case['kind'] == 'rx':
        check_rx(ctx, case)
    else:
        check_e2e(ctx, case)
