"""C17 - persistent parameters: crash-atomic, exact round trip, retried after failure

generated PersistentMixin modules x value histories x a simulated crash or OSError at EVERY file
system operation of every save (enumerated, not sampled) x corruptions of the stored file
(truncation at every byte, bit flips, structural JSON mutations).
Faults are injected beneath frappy: builtins.open / io.open and os.rename/replace/remove/unlink/fsync are
wrapped for paths inside the case's persistent directory.
"""
import os
import io
import json
import shutil
import builtins
from pathlib import Path

from hypothesis import strategies as st

from vf import refmodel as rm
from vf import specs
from vf.runner import drive, VERIF
from vf.checks.c02 import deep_merge

PROPERTY = 'C17'
LEVEL = 'fault_enumeration'
RULE = ('Hypothesis draws a module (1-4 persistent parameters over all datatypes, on/auto, with/without write method, with/without '
        'configured value) and a history of 1-4 value changes. The history is executed once to count the file system operations '
        '(open, every write issued by json.dump, close, rename, remove) and then once per operation index and fault kind (crash = '
        'execution stops, written prefix stays; error = OSError raised) - the fault points of every save are enumerated completely. '
        'Stored files are corrupted by truncation at every byte, single bit flips and structural mutations. One evaluation = one '
        'faulted run or one corrupted load. non-trivial: the fault hits a save that changes the snapshot (not the first operation), '
        'or the corruption leaves syntactically valid JSON; distinct by (module, history, fault).')
ASSUMPTIONS = ['crash model: operations take effect in program order, a crash stops at an operation boundary, data handed to write() '
               'before the crash is on disk (no fsync / reordering model)', 'file system of the sandbox is real; only faults are injected']

N_EXAMPLES = {'quick': 20, 'thorough': 400}


def shards(tier, seed):
    return [{'idx': i, 'n': N_EXAMPLES[tier]} for i in range(16)]


class Crash(BaseException):
    pass


class Faults:
    """counts and faults file system operations below the watched directory"""

    def __init__(self, root):
        self.root = str(root)
        self.count = 0
        self.fault_at = None
        self.kind = None
        self.log = []
        self.open_files = []
        self.orig = {}
        self.dead = False

    def watched(self, path):
        try:
            return str(os.fspath(path)).startswith(self.root)
        except TypeError:
            return False

    def op(self, name):
        if self.dead:
            raise Crash('dead')    # a crashed process does nothing any more (no clean-up in finally clauses either)
        i = self.count
        self.count += 1
        self.log.append(name)
        if getattr(self, 'sticky', None) == name:
            raise OSError(5, f'injected persistent failure at {name}')
        if self.fault_at is not None and i == self.fault_at:
            self.fault_at = None    # one fault per run
            if self.kind == 'crash':
                self.dead = True
                raise Crash(name)
            if self.kind == 'error-sticky':
                self.sticky = name      # the condition lasts (I/O error of the medium, access rights): every later operation of
                #                         this kind fails too, until the harness heals it
            raise OSError(28, f'injected failure at {name}')

    def install(self):
        f = self

        class Proxy:
            def __init__(self, real):
                self._real = real

            def write(self, data):
                f.op('write')
                n = self._real.write(data)
                self._real.flush()
                return n

            def flush(self):
                self._real.flush()

            def close(self):
                if not self._real.closed:
                    f.op('close')
                    self._real.close()

            def __enter__(self):
                return self

            def __exit__(self, *exc):
                if exc[0] is Crash:
                    return False
                self.close()
                return False

            def __getattr__(self, name):
                return getattr(self._real, name)

            def __iter__(self):
                return iter(self._real)

        def fake_open(file, mode='r', *args, **kwds):
            if f.watched(file) and any(c in mode for c in 'wax+'):
                f.op('open')
                real = f.orig['open'](file, mode, *args, **kwds)
                f.open_files.append(real)
                return Proxy(real)
            return f.orig['open'](file, mode, *args, **kwds)

        def wrap(name):
            orig = getattr(os, name)

            def fn(*args, **kwds):
                if args and f.watched(args[0]):
                    f.op(name)
                return orig(*args, **kwds)
            return orig, fn
        self.orig['open'] = builtins.open
        self.orig['io.open'] = io.open
        builtins.open = fake_open
        io.open = fake_open
        for name in ('rename', 'replace', 'remove', 'unlink', 'fsync'):
            orig, fn = wrap(name)
            self.orig[name] = orig
            setattr(os, name, fn)

    def uninstall(self):
        builtins.open = self.orig['open']
        io.open = self.orig['io.open']
        for name in ('rename', 'replace', 'remove', 'unlink', 'fsync'):
            setattr(os, name, self.orig[name])
        for real in self.open_files:
            try:
                real.close()
            except Exception:   # noqa
                pass


def make_class(spec):
    from frappy.core import Module
    from frappy.persistent import PersistentMixin, PersistentParam
    attrs = {'writes': [], 'hw_refuses': False}
    for p in spec['params']:
        if p.get('limit_of'):
            from frappy.persistent import PersistentLimit
            attrs[p['name']] = PersistentLimit()      # a persistent limit of the parameter defined before
            continue
        kw = {} if p.get('nodefault') else {'default': p['default']}     # (nodefault: the default of the datatype applies)
        if p.get('hidden'):
            kw['export'] = False       # an internal parameter (calibration, counter): not visible to clients, persistent all the same
        attrs[p['name']] = PersistentParam(f"persistent {p['name']}", specs.build(p['T']), persistent=p['persistent'],
                                           readonly=bool(p.get('readonly')), **kw)
        if p.get('write') and not p.get('readonly'):
            def wfunc(self, value, pname=p['name']):
                if self.hw_refuses:
                    from frappy.errors import HardwareError
                    raise HardwareError('hardware not ready')
                self.writes.append((pname, rm.canon(value)))
                return value
            wfunc.__name__ = 'write_' + p['name']
            attrs['write_' + p['name']] = wfunc
    return type('P', (PersistentMixin, Module), attrs)


class Srv:
    def __init__(self):
        self.dispatcher = type('D', (), {'announce_update': lambda self, m, p: None})()
        self.secnode = type('N', (), {'equipment_id': 'eq'})()


class Log:
    handlers = []

    def debug(self, *a):
        pass
    info = warning = error = exception = debug


def new_module(cls, spec, workdir, cfgvalues=None):
    from frappy.lib import generalConfig
    generalConfig.testinit(logdir=Path(workdir), omit_unchanged_within=0)
    cfg = {'description': 'persistent module'}
    for name, v in (cfgvalues or {}).items():
        cfg[name] = {'value': v}
    return cls('m', Log(), cfg, Srv())


def file_path(workdir):
    return os.path.join(workdir, 'persistent', 'eq.m.json')


def read_file(workdir):
    """-> ('absent',) | ('ok', data) | ('bad', text)"""
    path = file_path(workdir)
    if not os.path.exists(path):
        return ('absent',)
    with open(path, 'rb') as f:
        raw = f.read()
    try:
        return ('ok', json.loads(raw.decode('utf-8')))
    except ValueError:
        return ('bad', raw[:80])


def snapshot_values(m, spec):
    return {p['name']: rm.canon(getattr(m, p['name'])) for p in spec['params']}


def exported(m, spec):
    return {p['name']: json.loads(json.dumps(m.parameters[p['name']].export_value())) for p in spec['params']}


def run_history(cls, spec, workdir, history, faults, after_fault=None):
    """create the module, flush start-up writes, apply the history; returns (module, states)
    states: list of file states ('before', 'after') per step recorded by the caller through faults.log"""
    m = new_module(cls, spec, workdir, spec.get('cfg'))
    m.writeInitParams()
    m.saveParameters()
    for step in history:
        setattr(m, step['param'], step['value'])
        if step.get('explicit'):
            m.saveParameters()
    m.saveParameters()
    return m


@st.composite
def module_case(draw):
    n = draw(st.integers(1, 4))
    params = []
    for i in range(n):
        T = draw(specs.tree_spec(2))
        params.append({'name': f'p{i}', 'T': T, 'default': draw(specs.valid_value(T, True)),
                       'persistent': draw(st.sampled_from(['on', 'auto', 'auto'])), 'write': draw(st.booleans()),
                       # read-only for clients and without write method: only the driver changes it (encoder, counter ...)
                       'readonly': draw(st.integers(0, 3)) == 0, 'hidden': draw(st.integers(0, 4)) == 0})
    for p in params:
        if p['T']['k'] in ('double', 'int', 'bool', 'string') and draw(st.integers(0, 3)) == 0:
            # declared without default: the parameter starts "not initialized" with the default of its datatype
            d = specs.build(p['T']).default
            if type(d) in (float, int, bool, str):
                p['default'], p['nodefault'] = d, True
    for p in list(params):
        if p['T']['k'] in ('double', 'int') and not p['readonly'] and draw(st.integers(0, 2)) == 0:
            hi = rm.dlimits(p['T'])[1] if p['T']['k'] == 'double' else p['T']['max']
            params.append({'name': p['name'] + '_max', 'T': p['T'], 'default': hi, 'persistent': 'on', 'write': False, 'readonly': False,
                           'limit_of': p['name']})
    history = []
    for _ in range(draw(st.integers(1, 4))):
        p = draw(st.sampled_from(params))
        history.append({'param': p['name'], 'value': draw(specs.valid_value(p['T'], True)), 'explicit': draw(st.booleans())})
    cfg = {}
    for p in params:
        if draw(st.integers(0, 3)) == 0:
            cfg[p['name']] = draw(specs.valid_value(p['T'], True))
    return {'kind': 'module', 'params': params, 'history': history, 'cfg': cfg}


def clean(workdir):
    shutil.rmtree(workdir, ignore_errors=True)
    os.makedirs(workdir)


def check_module(ctx, case):
    workdir = os.path.join(VERIF, '.work', f'c17-{os.getpid()}')
    spec = case
    for p in spec['params']:
        if rm.status(p['T'], p['default'], 'drv')[0] != 'A':
            return     # inconsistent (shrunk) case
    try:
        _check_module(ctx, case, workdir)
    finally:
        shutil.rmtree(workdir, ignore_errors=True)


def _check_module(ctx, case, workdir):
    spec = case
    cls = make_class(spec)
    key = json.dumps(case, sort_keys=True, default=repr)
    ctx.sample({'params': [{k: v for k, v in p.items()} for p in spec['params']], 'history': spec['history'], 'cfg': spec['cfg']}, every=23)
    # ---- reference run (no fault): operation count, file states after each save
    clean(workdir)
    faults = Faults(os.path.join(workdir, 'persistent'))
    faults.install()
    try:
        m = run_history(cls, spec, workdir, spec['history'], faults)
    except BaseException as e:   # noqa
        faults.uninstall()
        ctx.finding(f'plain-run-fails:{type(e).__name__}', case, repr(e)[:300])
        return
    faults.uninstall()
    nops = faults.count
    oplog = list(faults.log)
    ctx.ev()
    final = read_file(workdir)
    want_file = exported(m, spec)
    if final != ('ok', want_file):
        ctx.finding('save:file-differs-from-values', case, f'{final!r} vs {want_file!r}'[:400])
    else:
        ctx.ok('file-holds-current-values')
    final_values = snapshot_values(m, spec)
    # ---- (2b) persistent='auto': every change is on disk at once, without an explicit save
    try:
        clean(workdir)
        ma = new_module(cls, spec, workdir, spec.get('cfg'))
        ma.writeInitParams()
        ma.saveParameters()
        byname_ = {p_['name']: p_ for p_ in spec['params']}
        for step in spec['history']:
            setattr(ma, step['param'], step['value'])
            if byname_[step['param']]['persistent'] == 'auto':
                ctx.ev()
                disk = read_file(workdir)
                if disk != ('ok', exported(ma, spec)):
                    ctx.finding('auto-save:change-not-on-disk' + (':hidden-parameter' if byname_[step['param']].get('hidden') else ''), case,
                                f'{step["param"]} = {step["value"]!r}: file {disk!r} vs {exported(ma, spec)!r}'[:400])
                    break
                ctx.ok('auto-saved')
    except Exception as e:   # noqa
        ctx.finding(f'auto-save:raises:{type(e).__name__}', case, repr(e)[:300])
    clean(workdir)
    m = run_history(cls, spec, workdir, spec['history'], None)
    # ---- (3b) reload at run time: after a power cycle of the hardware the driver sees the power-up values (here: the defaults,
    # not saved, as documented) and calls loadParameters() - also while the hardware does not accept writes yet.
    # every persistent parameter is back at the stored value, and the stored snapshot survives the next save
    for refuses in (False, True):
        ctx.ev()
        try:
            mr = new_module(cls, spec, workdir, None)
            mr.writeInitParams()
            for p_ in spec['params']:
                pobj = mr.parameters[p_['name']]
                if not p_.get('limit_of'):
                    pobj.value = pobj.datatype(p_['default'])      # what the driver found in the hardware (no callbacks, no save)
            mr.hw_refuses = refuses
            mr.loadParameters()
            mr.hw_refuses = False
            lost = [p_['name'] for p_ in spec['params'] if not p_.get('limit_of') and rm.canon(getattr(mr, p_['name'])) != final_values[p_['name']]]
            mr.saveParameters()
            disk = read_file(workdir)
        except Exception as e:   # noqa
            ctx.finding(f'runtime-reload:raises:{type(e).__name__}', case, repr(e)[:300])
            break
        tag = 'hardware-refuses-writes' if refuses else 'hardware-ready'
        if lost:
            ctx.finding(f'runtime-reload:stored-value-not-restored:{tag}', case, f'{lost!r} after loadParameters()')
        elif disk != ('ok', want_file):
            ctx.finding(f'runtime-reload:snapshot-lost:{tag}', case, f'{disk!r} vs {want_file!r}'[:400])
        else:
            ctx.ok('runtime-reload')
    # ---- (3)/(4) reload: stored values win over defaults, configured values over stored ones
    m3 = new_module(cls, spec, workdir, None)
    for p in spec['params']:
        got = rm.canon(getattr(m3, p['name']))
        if got != final_values[p['name']]:
            ctx.finding(f'reload:stored-value-lost:{p["T"]["k"]}', case, f'{p["name"]}: {got!r} instead of {final_values[p["name"]]!r}')
        elif m3.parameters[p['name']].readerror is not None and m.parameters[p['name']].readerror is None:
            # restored, but still flagged as an error (an activating client gets an error instead of the value)
            ctx.finding('reload:restored-value-still-in-error-state', case, f'{p["name"]} = {got!r}: {m3.parameters[p["name"]].readerror!r}')
        else:
            ctx.ok('reload-roundtrip')
    m2 = new_module(cls, spec, workdir, spec.get('cfg'))
    # the snapshot on disk is brought up to date at start-up (configured values win over stored ones there too: a later
    # loadParameters() must not bring the outdated ones back)
    disk = read_file(workdir)
    if disk != ('ok', exported(m2, spec)):
        ctx.finding('reload:file-not-updated-at-start', case, f'{disk!r} vs {exported(m2, spec)!r}'[:400])
    else:
        ctx.ok('file-updated-at-start')
    for p in spec['params']:
        ctx.ev()
        got = rm.canon(getattr(m2, p['name']))
        if p['name'] in spec['cfg']:
            want = rm.canon(specs.build(p['T']).validate(spec['cfg'][p['name']]))
            what = 'configured'
        else:
            want = final_values[p['name']]
            what = 'stored'
        if got != want:
            ctx.finding(f'reload:{what}-value-lost:{p["T"]["k"]}', case, f'{p["name"]}: {got!r} instead of {want!r}')
        else:
            ctx.ok(f'reload-{what}')
    # ---- (1)/(2) every fault point x {crash, error}
    for idx in range(nops):
        for kind in ('crash', 'error', 'error-sticky'):
            if kind == 'error-sticky' and (idx >= len(oplog) or oplog[idx] not in ('rename', 'replace')):
                continue
            ctx.ev()
            clean(workdir)
            f = Faults(os.path.join(workdir, 'persistent'))
            f.fault_at, f.kind = idx, kind
            f.install()
            states = []
            mm = None
            crashed = raised = None
            try:
                # record the file state before every operation of interest by replaying step by step
                mm = new_module(cls, spec, workdir, spec.get('cfg'))
                states.append(read_file(workdir))
                mm.writeInitParams()
                mm.saveParameters()
                states.append(read_file(workdir))
                for step in spec['history']:
                    try:
                        setattr(mm, step['param'], step['value'])
                        if step.get('explicit'):
                            mm.saveParameters()
                    except OSError as e:
                        raised = e
                    states.append(read_file(workdir))
                try:
                    mm.saveParameters()
                except OSError as e:
                    raised = e
            except Crash as e:
                crashed = e
            except OSError as e:
                raised = e      # the constructor's own first save failed: start-up refused by an I/O error (not asserted)
                mm = None
            finally:
                f.uninstall()
            sub = dict(case, fault={'index': idx, 'kind': kind, 'op': oplog[idx] if idx < len(oplog) else '?'})
            opname = oplog[idx] if idx < len(oplog) else '?'
            if idx > 0:
                ctx.nt((key, idx, kind))
            ctx.label(f'fault:{kind}:{opname}')
            disk = read_file(workdir)
            if kind == 'crash':
                if crashed is None:
                    ctx.label('fault-not-reached')
                    continue
                # the file under the final name is absent-as-before or one of the complete snapshots
                prev = states[-1] if states else ('absent',)
                allowed = [prev]
                if mm is not None:
                    allowed.append(('ok', exported(mm, spec)))
                elif states == []:
                    allowed = None    # crash inside the constructor: new snapshot unknown -> only completeness is checked
                if disk[0] == 'bad':
                    ctx.finding(f'crash:partial-file:{opname}', sub, f'after crash at op {idx} ({opname}): {disk!r}')
                elif disk[0] == 'absent' and prev[0] != 'absent':
                    ctx.finding(f'crash:file-lost:{opname}', sub, f'after crash at op {idx} ({opname}) the file is gone; before: {prev!r}'[:300])
                elif allowed is not None and disk not in allowed and not (disk[0] == 'ok' and isinstance(disk[1], dict)
                                                                         and set(disk[1]) == {p['name'] for p in spec['params']}):
                    ctx.finding(f'crash:neither-old-nor-new:{opname}', sub, f'{disk!r} not in {allowed!r}'[:400])
                else:
                    ctx.ok('crash-atomic')
                # and start-up from that state works
                try:
                    m5 = new_module(cls, spec, workdir, None)
                    m5.writeInitParams()       # (saves are deferred while start-up writes are pending - documented)
                    ctx.ok('startup-after-crash')
                except Exception as e:   # noqa
                    ctx.finding(f'crash:startup-fails:{type(e).__name__}', sub, repr(e)[:200])
                    continue
                # the next life saves again (leftovers of the crashed save - a temporary file - must not harm): complete snapshots,
                # also when the values get shorter
                for short in (False, True):
                    if short:
                        for p in spec['params']:
                            try:
                                setattr(m5, p['name'], p['default'])
                            except Exception:   # noqa
                                pass
                    try:
                        m5.saveParameters()
                    except Exception as e:   # noqa
                        ctx.finding(f'crash:save-in-next-life-fails:{type(e).__name__}', sub, repr(e)[:200])
                        break
                    disk2 = read_file(workdir)
                    if disk2 != ('ok', exported(m5, spec)):
                        ctx.finding(f'crash:file-wrong-in-next-life:{opname}', sub,
                                    f'after a crash at op {idx} ({opname}), restart and save: {disk2!r} vs {exported(m5, spec)!r}'[:500])
                        break
                else:
                    ctx.ok('next-life-saves-complete-snapshots')
            else:
                if mm is None:
                    continue
                if disk[0] == 'bad':
                    ctx.finding(f'error:partial-file:{opname}', sub, repr(disk))
                elif disk[0] == 'absent' and any(st_[0] == 'ok' for st_ in states):
                    # a failing save leaves the previous snapshot in place - it does not take the file away
                    ctx.finding(f'error:file-lost:{opname}' + (':persistent-failure' if kind == 'error-sticky' else ''), sub,
                                f'after the failure at op {idx} ({opname}) there is no file any more; before: {[st_[0] for st_ in states]!r}')
                    continue
                # a save that failed is attempted again by the next save
                try:
                    mm.saveParameters()
                except Exception as e:   # noqa
                    ctx.finding(f'error:retry-raises:{type(e).__name__}', sub, repr(e)[:200])
                    continue
                disk = read_file(workdir)
                want = ('ok', exported(mm, spec))
                if disk != want:
                    ctx.finding(f'error:failed-save-not-retried:{opname}', sub,
                                f'after an OSError at op {idx} ({opname}) and a further saveParameters(): file {disk!r}, values {want!r}'[:500])
                else:
                    ctx.ok('failed-save-retried')
    ctx.extra['exhaustive'] = True


# -----------------------------------------------------------------------------------------------
# corrupted files

def corruptions(raw, tier_all):
    out = []
    n = len(raw)
    for i in range(n):
        out.append((f'truncate', raw[:i]))
    step = 1 if tier_all else max(1, n // 40)
    for i in range(0, n, step):
        for bit in ((0, 3, 7) if not tier_all else range(8)):
            b = bytearray(raw)
            b[i] ^= 1 << bit
            out.append(('bitflip', bytes(b)))
    # garbage a decoder may choke on in other ways than "invalid JSON": deep nesting, huge numbers, wrong encodings
    out += [('deep-nesting', b'[' * 100000), ('deep-nesting-object', b'{"a":' * 50000), ('huge-number', b'{"x": 1' + b'0' * 5000 + b'}'),
            ('utf16', raw.decode('utf-8', 'replace').encode('utf-16')), ('nul-bytes', b'\0' * 64), ('invalid-utf8', b'{"\xff\xfe": 1}')]
    return out


def structural(data):
    """structural JSON mutations of the stored object"""
    out = [('toplevel-list', []), ('toplevel-number', 5), ('toplevel-null', None), ('toplevel-string', 'x'), ('toplevel-list-of-pairs', [[k, v] for k, v in data.items()]),
           ('empty-object', {}), ('unknown-key', dict(data, zz_unknown=1)), ('outdated-name', {k + '_old': v for k, v in data.items()})]
    for k in data:
        for label, v in (('null', None), ('string', 'x'), ('number', 1e99), ('list', [1, 2, 3]), ('object', {'a': 1}), ('bool', True)):
            out.append((f'member-{label}', dict(data, **{k: v})))
        out.append(('member-missing', {kk: vv for kk, vv in data.items() if kk != k}))
    return out


def drop_nested_optional(T, v, depth=0):
    """variants of the stored (wire) value v in which one optional struct member below the top level is left out
    (an outdated file: the member was added to the struct in a newer version of the driver)"""
    out = []
    k = T['k']
    if k == 'struct' and isinstance(v, dict):
        if depth > 0:
            for n in T.get('optional', []):
                if n in v:
                    out.append({m: x for m, x in v.items() if m != n})
        for n, t in T['members'].items():
            if n in v:
                out += [dict(v, **{n: x}) for x in drop_nested_optional(t, v[n], depth + 1)]
    elif k == 'array' and isinstance(v, list):
        for i, e in enumerate(v):
            out += [v[:i] + [x] + v[i + 1:] for x in drop_nested_optional(T['of'], e, depth + 1)]
    elif k == 'tuple' and isinstance(v, list):
        for i, (t, e) in enumerate(zip(T['of'], v)):
            out += [v[:i] + [x] + v[i + 1:] for x in drop_nested_optional(t, e, depth + 1)]
    return out


def check_corruption(ctx, case, thorough=False):
    workdir = os.path.join(VERIF, '.work', f'c17c-{os.getpid()}')
    spec = case
    for p in spec['params']:
        if rm.status(p['T'], p['default'], 'drv')[0] != 'A':
            return
    cls = make_class(spec)
    try:
        clean(workdir)
        m = run_history(cls, spec, workdir, spec['history'], None)
        good = exported(m, spec)
        values = snapshot_values(m, spec)
        with open(file_path(workdir), 'rb') as f:
            raw = f.read()
        defaults = {p['name']: rm.canon(specs.build(p['T']).validate(p['default'])) for p in spec['params']}
        dts = {p['name']: specs.build(p['T']) for p in spec['params']}
        Ts = {p['name']: p['T'] for p in spec['params']}
        cands = [(label, data, None) for label, data in corruptions(raw, thorough)]
        cands += [(label, json.dumps(obj).encode(), obj) for label, obj in structural(good)]
        for p_ in spec['params']:
            if p_['name'] in good:
                for variant in drop_nested_optional(p_['T'], good[p_['name']])[:6]:
                    obj_ = dict(good, **{p_['name']: variant})
                    cands.append(('nested-optional-member-missing', json.dumps(obj_).encode(), obj_))
        # the file is there, but can not be read (access rights, I/O error of the medium)
        cands += [('unreadable-EACCES', raw, None), ('unreadable-EIO', raw, None)]
        for label, data, obj in cands:
            ctx.ev()
            with open(file_path(workdir), 'wb') as f:
                f.write(data)
            if label.startswith('unreadable'):
                import builtins
                orig_open, orig_io_open, target = builtins.open, io.open, os.path.realpath(file_path(workdir))

                def deny(file, mode='r', *args, _label=label, _orig=orig_open, _target=target, **kwds):
                    if not any(c in mode for c in 'wax+') and isinstance(file, (str, os.PathLike)) and os.path.realpath(file) == _target:
                        raise PermissionError(13, 'Permission denied', str(file)) if _label.endswith('EACCES') else OSError(5, 'Input/output error', str(file))
                    return _orig(file, mode, *args, **kwds)
                builtins.open = io.open = deny
                try:
                    try:
                        m2 = new_module(cls, spec, workdir, None)
                    finally:
                        builtins.open, io.open = orig_open, orig_io_open
                except Exception as e:   # noqa
                    ctx.finding(f'corrupt:startup-prevented:{label}:{type(e).__name__}', dict(case, corruption={'label': label}), repr(e)[:200])
                    continue
                ctx.label(f'corrupt:{label}')
                bad = [p['name'] for p in spec['params'] if rm.canon(getattr(m2, p['name'])) != defaults[p['name']]]
                if bad:
                    ctx.finding(f'corrupt:unreadable-file-applied:{label}', dict(case, corruption={'label': label}), repr(bad))
                else:
                    ctx.ok('startup-with-unreadable-file')
                continue
            sub = dict(case, corruption={'label': label, 'data': data[:2000].decode('latin-1'), 'length': len(data)})
            try:
                parsed = json.loads(data.decode('utf-8'))
                valid_json = True
            except (ValueError, RecursionError):
                parsed, valid_json = None, False
            if valid_json:
                ctx.nt((json.dumps(case, sort_keys=True, default=repr), label, data))
            ctx.label(f'corrupt:{label}', 'corrupt:valid-json' if valid_json else 'corrupt:broken-json')
            try:
                m2 = new_module(cls, spec, workdir, None)
            except Exception as e:   # noqa
                ctx.finding(f'corrupt:startup-prevented:{label}:{type(e).__name__}', sub, repr(e)[:200])
                continue
            ctx.ok('startup-with-corrupt-file')
            for p in spec['params']:
                got = rm.canon(getattr(m2, p['name']))
                entry = parsed.get(p['name'], KeyError) if isinstance(parsed, dict) else KeyError
                usable = False
                if entry is not KeyError:
                    st_, _ = rm.status(Ts[p['name']], entry, 'wire')
                    usable = st_ == 'A'
                    if st_ == 'E':
                        continue
                if usable and label == 'nested-optional-member-missing' and entry != good.get(p['name']):
                    # completed from the default where that is possible, or ignored as a whole (then the default applies)
                    try:
                        m2.parameters[p['name']].datatype.export_value(getattr(m2, p['name']))
                        exportable = True
                    except Exception:   # noqa
                        exportable = False
                    if not exportable:
                        ctx.finding('corrupt:restored-value-not-exportable:nested-optional', sub, f'{p["name"]}: {got!r}')
                    else:
                        ctx.ok('nested-optional-tolerated')
                elif usable:
                    # a stored struct lacking optional members is completed from the default value
                    want = deep_merge(defaults[p['name']], rm.canon(dts[p['name']].validate(dts[p['name']].import_value(entry))))
                    if got != want:
                        ctx.finding(f'corrupt:usable-entry-not-restored:{label}', sub, f'{p["name"]}: {got!r} instead of {want!r}')
                    else:
                        ctx.ok('usable-entry-restored')
                elif got != defaults[p['name']]:
                    ctx.finding(f'corrupt:unusable-entry-applied:{label}:{Ts[p["name"]]["k"]}', sub,
                                f'{p["name"]}: stored {entry!r} is no valid value, parameter is {got!r} instead of the default {defaults[p["name"]]!r}')
                else:
                    ctx.ok('unusable-entry-ignored')
    finally:
        shutil.rmtree(workdir, ignore_errors=True)


def run_shard(ctx, shard):
    thorough = ctx.tier == 'thorough'
    if shard['idx'] % 4 == 3:
        drive(module_case(), lambda case: check_corruption(ctx, dict(case, kind='corrupt'), thorough), max(3, shard['n'] // 2), ctx.seed * 1000 + shard['idx'])
    else:
        drive(module_case(), lambda case: check_module(ctx, case), shard['n'], ctx.seed * 1000 + shard['idx'])


def run_case(ctx, case):
    if case['kind'] == 'corrupt':
        check_corruption(ctx, case)
    else:
        check_module(ctx, case)
