"""C16 - communicator: atomic request/reply pairing, stale data discarded, self-healing

real StringIO / BytesIO modules over the real AsynTcp on a fake socket with a scripted device;
2-4 caller threads plus a poll thread, all managed by the deterministic scheduler in virtual time.
"""
import types

from hypothesis import strategies as st

from vf import dsched, fakenet
from vf.runner import drive

PROPERTY = 'C16'
LEVEL = 'exploration'
RULE = ('Hypothesis draws a line- or byte-oriented communicator (timeout 2 s, wait_before 0.1 s, reconnect interval 10 s), 2-4 caller '
        'threads with 1-4 operations each from {communicate, writeline, multicomm with delays, sleep}, a device script keyed by the arrival '
        'index of the commands (reply derived from the command, chunk size, trailing garbage, late reply, silence, disconnect '
        'before/inside/after the transaction, refusal of the next k connection attempts) and a schedule. One evaluation = one scheduled '
        'scenario. non-trivial: >= 2 callers overlapping in virtual time with >= 1 fault; distinct by trace hash.')
ASSUMPTIONS = ['late or unsolicited device data is generated so that it is present before the next command is sent (anything else is '
               'indistinguishable from a reply on the wire)', 'interleavings at synchronisation/socket operation granularity; virtual time']

N_EXAMPLES = {'quick': 800, 'thorough': 12000}
TIMEOUT = 2.0
INTERVAL = 10.0
WAIT_BEFORE = 0.1


def shards(tier, seed):
    return [{'idx': i, 'n': N_EXAMPLES[tier]} for i in range(16)]


@st.composite
def scenario(draw):
    kind = draw(st.sampled_from(['string', 'string', 'bytes']))
    callers = []
    for t in range(draw(st.integers(2, 4))):
        ops = []
        for n in range(draw(st.integers(1, 4))):
            what = draw(st.sampled_from(['comm', 'comm', 'comm', 'write', 'multi', 'sleep', 'retry']))
            if what == 'retry':    # a caller trying again shortly after (notices a lost connection, then reconnects itself)
                ops += [['comm', f'c{t}{n}'], ['sleep', draw(st.sampled_from([0.5, 3.0]))], ['comm', f'r{t}{n}']]
                continue
            if what == 'multi':
                ops.append(['multi', [[f'm{t}{n}{j}', draw(st.booleans()) if kind == 'string' else True, draw(st.sampled_from([0, 0.25, 0.5]))]
                                      for j in range(draw(st.integers(0, 3)))]])
            elif what == 'sleep':
                ops.append(['sleep', draw(st.sampled_from([0.5, 3.0, 10.0, 11.0, 25.0]))])     # (10.0: exactly one poll interval)
            elif what == 'write' and kind == 'string':
                ops.append(['write', f'w{t}{n}'])
            else:
                ops.append(['comm', f'c{t}{n}'])
        callers.append(ops)
    faults = {}
    for _ in range(draw(st.integers(0, 4))):
        faults[str(draw(st.integers(0, 10)))] = draw(st.sampled_from(['garbage', 'garbage-joined', 'late', 'silent', 'close-before', 'close-inside', 'close-after', 'chunk1', 'chunk3']))
    return {'kind': 'scenario', 'io': kind, 'callers': callers, 'faults': faults, 'refuse': draw(st.sampled_from([0, 0, 1, 3])),
            'wait_before': draw(st.sampled_from([WAIT_BEFORE, WAIT_BEFORE, 0])), 'raising_cb': draw(st.integers(0, 3)) == 0,
            'polled_dev': draw(st.integers(0, 2)) == 0, 'close_all_from': draw(st.sampled_from([None, None, None, None, 1, 3])),     # (0 is the default of the communicators)
            'banner': draw(st.booleans()), 'eol': draw(st.sampled_from(['\n', '\n', '\r\n'])), 'ident': draw(st.integers(0, 2)) == 0, 'connect_delay': draw(st.sampled_from([0, 0, 0.05])), 'poller': draw(st.sampled_from(['model', 'real'])), 'schedule': draw(st.lists(st.integers(0, 4), min_size=10, max_size=200))}


class Device:
    """scripted device behind the fake connection"""

    def __init__(self, world, index):
        self.world = world
        self.sock = None
        self.buf = b''
        self.closed = False

    def attach(self, sock):
        self.sock = sock
        if self.world.case.get('banner'):
            sock.push(b'WELCOME BANNER' + self.world.eol if self.world.case['io'] == 'string' else b'\xde\xad')

    def on_close(self, sock):
        self.closed = True

    def on_data(self, sock, data):
        w = self.world
        w.bytelog.append((dsched.v_time(), data))
        self.buf += data
        if w.case['io'] == 'string':
            while w.eol in self.buf:
                line, self.buf = self.buf.split(w.eol, 1)
                self.command(line)
        else:
            while len(self.buf) >= 4:
                req, self.buf = self.buf[:4], self.buf[4:]
                self.command(req)

    def reply_for(self, cmd):
        if self.world.case['io'] == 'string':
            return b'R:' + cmd + self.world.eol
        return bytes(reversed(cmd))

    def command(self, cmd):
        w = self.world
        if cmd == b'*IDN?' and w.case.get('ident'):
            w.idents.append(dsched.v_time())      # the identification exchange after (re)connecting: never faulted
            self.sock.push(b'ACME,device' + w.eol)
            return
        idx = len(w.commands)
        w.commands.append((dsched.v_time(), cmd))
        if w.case['io'] == 'string' and cmd.startswith(b'w'):
            return        # writeline: no reply expected
        if w.case['io'] == 'string' and cmd.startswith(b'm') and cmd in w.noreply:
            return
        fault = w.case['faults'].get(str(idx))
        if w.case.get('close_all_from') is not None and idx >= w.case['close_all_from']:
            fault = 'close-before'      # a port forwarder whose target is down: accepts, then closes on the first request
        reply = self.reply_for(cmd)
        if fault == 'late' and not w.case.get('wait_before', WAIT_BEFORE):
            # without a pause before sending, a reply coming in late can not be told from the reply to the next command
            # (it may arrive after that was sent): no statement about it - the device stays silent instead
            fault = 'silent'
        if fault == 'silent':
            return
        if fault == 'close-before':
            self.close()
            return
        if fault == 'close-inside':
            self.sock.push(reply[:max(1, len(reply) // 2)])
            self.close()
            return
        if fault == 'late':
            s = dsched.sched()

            def later(sock=self.sock):
                dsched.v_sleep(TIMEOUT + 0.05)
                sock.push(reply)
            s.spawn(later, _name='T:late')
            return
        if fault == 'garbage-joined':
            # the reply and following unsolicited data arrive in one segment
            self.sock.push(reply + (b'#stale#' + w.eol + b'#more#' + w.eol if w.case['io'] == 'string' else b'\xff\xff\xff'))
            return
        n = {'chunk1': 1, 'chunk3': 3}.get(fault)
        if n:
            for i in range(0, len(reply), n):
                self.sock.push(reply[i:i + n])
        else:
            self.sock.push(reply)
        if fault == 'garbage':
            self.sock.push(b'#stale#' + w.eol if w.case['io'] == 'string' else b'\xff\xff\xff')
        if fault == 'close-after':
            self.close()

    def close(self):
        self.closed = True
        self.world.disconnects.append(dsched.v_time())
        # (how many connection attempts were made before: with no pauses, everything may happen at the same virtual time)
        self.world.disconnect_marks.append(len(self.world.net.attempts) if getattr(self.world, 'net', None) else 0)
        self.world.refuse_left = self.world.case.get('refuse', 0)
        self.sock.peer_close()


class World:
    def __init__(self, case):
        self.case = case
        self.eol = case.get('eol', '\n').encode()     # line terminator of the device (both directions)
        self.commands = []
        self.idents = []
        self.bytelog = []
        self.disconnects = []
        self.disconnect_marks = []
        self.refuse_left = 0
        self.accepted = []
        self.noreply = set()
        for ops in case['callers']:
            for op in ops:
                if op[0] == 'multi':
                    for cmd, expect, delay in op[1]:
                        if not expect:
                            self.noreply.add(cmd.encode())

    def factory(self, addr, index):
        if 'other' in str(addr[0]):
            return Device(self, index)     # the device of the second communicator: never used, never failing
        if self.refuse_left > 0:
            self.refuse_left -= 1
            return None
        self.accepted.append(dsched.v_time())
        return Device(self, index)


def encode(case, cmd):
    if case['io'] == 'string':
        return cmd
    return (cmd.encode() + b'....')[:4]


def run(case, preempt=None):
    import frappy.io as fio
    import frappy.lib.asynconn as ac
    from frappy.lib import generalConfig
    ac.AsynConn.__del__ = lambda self: None
    world = World(case)
    net = fakenet.FakeNet(world.factory)
    net.connect_delay = case.get('connect_delay', 0)
    world.net = net
    s = dsched.Sched(case.get("schedule", ()), preempt=preempt, horizon=600, step_limit=80000)
    out = {'sched': s, 'world': world, 'net': net, 'results': [], 'error': None, 'callbacks': {'a': 0, 'b': 0}, 'state': []}

    def main():
        generalConfig.testinit(omit_unchanged_within=0, comlog=False)
        srv = types.SimpleNamespace(dispatcher=types.SimpleNamespace(announce_update=lambda m, p: None), secnode=None)

        class L:
            handlers = []

            def debug(self, *a, **k):
                pass
            info = warning = error = exception = log = debug

            def getChild(self, *a, **k):
                return self
        cls = fio.StringIO if case['io'] == 'string' else fio.BytesIO
        cfg_io = {'uri': 'tcp://device:4000', 'description': 'communicator', 'timeout': {'value': TIMEOUT},
                  'wait_before': {'value': case.get('wait_before', WAIT_BEFORE)}, 'pollinterval': {'value': INTERVAL}}
        if case['io'] == 'string' and case.get('eol', '\n') != '\n':
            cfg_io['end_of_line'] = case['eol']
        if case['io'] == 'string' and case.get('ident'):
            cfg_io['identification'] = [('*IDN?', 'ACME.*')]     # checked by a communicate() inside every (re)connect
        io = cls('io', L(), dict(cfg_io), srv)
        io.earlyInit()
        out['io'] = io
        if case.get('raising_cb'):
            # a callback registered before the others fails (it is dropped then): the others run nevertheless
            def boom():
                raise RuntimeError('reconnect callback fails')
            io.registerReconnectCallback('0boom', boom)
        for name in ('a', 'b'):
            def cb(name=name):
                out['callbacks'][name] += 1
                return True
            io.registerReconnectCallback(name, cb)
        # a second communicator of the same node, with callbacks of the same names: it never reconnects
        io2 = cls('io2', L(), dict(cfg_io, uri='tcp://other:4000'), srv)
        io2.earlyInit()
        out['foreign_callbacks'] = []
        for name in ('a', 'b'):
            def cb2(name=name):
                out['foreign_callbacks'].append(name)
                return True
            io2.registerReconnectCallback(name, cb2)
        try:
            io.read_is_connected()
        except Exception as e:   # noqa
            out['connect_exc'] = e
            return
        stop = []
        out['polls'] = polls = []
        real_poller = case.get('poller') == 'real'
        if real_poller:
            # the poll thread of the framework itself (it registers its own reconnect callback re-triggering the polls)
            do_poll = io.doPoll

            def counted():
                polls.append(dsched.v_time())
                return do_poll()
            io.doPoll = counted
            io.initModule()
            if case.get('polled_dev') and case['io'] == 'string':
                # a module using the communicator, polled by the communicator's thread (as every driver is)
                from frappy.core import Readable
                from frappy.io import HasIO

                out['dev_polls'] = dev_polls = []

                class Dev(HasIO, Readable):
                    ioClass = cls

                    def read_value(self):
                        dev_polls.append(dsched.v_time())
                        try:
                            self.communicate('p')
                        finally:
                            out.setdefault('dev_poll_ends', []).append(dsched.v_time())
                        return 1.0
                dev = Dev('dev', L(), {'description': 'device', 'io': 'io', 'pollinterval': {'value': INTERVAL}}, srv)
                dev.attachedModules['io'] = io
                dev.earlyInit()
                dev.initModule()
                out['dev'] = dev
            io.startModule(types.SimpleNamespace(get_trigger=lambda timeout=None: (lambda: None)))
            pt = None
        else:
            def poller():
                while not stop:
                    try:
                        io.doPoll()
                    except Exception:   # noqa - silent errors while disconnected
                        pass
                    dsched.v_sleep(INTERVAL)
            pt = s.spawn(poller, _name='T:poller')
        threads = []
        for ti, ops in enumerate(case['callers']):
            def caller(ti=ti, ops=ops):
                for op in ops:
                    t0 = dsched.v_time()
                    rec = {'thread': ti, 'op': op, 't0': t0}
                    try:
                        if op[0] == 'sleep':
                            dsched.v_sleep(op[1])
                            continue
                        if op[0] == 'comm':
                            if case['io'] == 'string':
                                rec['reply'] = io.communicate(op[1])
                            else:
                                rec['reply'] = io.communicate(encode(case, op[1]), 4)
                        elif op[0] == 'write':
                            rec['reply'] = io.writeline(op[1])
                        else:
                            if case['io'] == 'string':
                                rec['reply'] = io.multicomm([tuple(r) for r in op[1]])
                            else:
                                rec['reply'] = io.multicomm([(encode(case, c), 4, d) for c, _, d in op[1]])
                    except Exception as e:   # noqa
                        rec['exc'] = e
                    rec['t1'] = dsched.v_time()
                    rec['connected_after'] = bool(io.is_connected)
                    out['results'].append(rec)
            threads.append(s.spawn(caller, _name=f'T:caller{ti}'))
        for t in threads:
            t.join()
        # let the self-healing happen: the device accepts again after the refused attempts
        dsched.v_sleep(INTERVAL * (case.get('refuse', 0) + 2) + 1)
        out['connected_at_end'] = bool(io.is_connected)
        out['end_time'] = dsched.v_time()
        stop.append(1)
        if pt:
            pt.join()
        else:
            io.stopPollThread()
            io.joinPollThread(5)

    import frappy.modulebase as mb
    ticks = [0]

    def ticking_time():
        # the poll loop compares with '>' and waits only for '> 0': at an exact boundary it spins until the clock moves on,
        # so the clock the poll thread sees moves a microsecond per look
        ticks[0] += 1
        return dsched.v_time() + ticks[0] * 1e-6
    with dsched.Patcher(extra=net.patch_map()):
        saved = mb.time
        mb.time = types.SimpleNamespace(time=ticking_time, sleep=dsched.v_sleep, monotonic=ticking_time)
        try:
            s.run(main)
        except (dsched.Deadlock, dsched.StepLimit) as e:
            out['error'] = e
        finally:
            mb.time = saved
    return out


def check(ctx, case):
    from frappy.errors import CommunicationFailedError
    ctx.ev()
    out = run(case)
    s, world = out['sched'], out['world']
    if out['error'] is not None:
        import re
        try:     # who waits for what, without thread numbers
            items = out['error'].args[0]
            shape = '|'.join(sorted({re.sub(r'\d+', '', f'{n.split(":")[-1]}>{str(w_).split(":")[-1]}') for n, w_ in items}))[:120]
        except Exception:   # noqa
            shape = 'unknown'
        # the identification exchange of a reconnect (poll of is_connected: module access lock, then the i/o lock) against a caller
        # (i/o lock, then read_is_connected: module access lock) is the known lock order inversion
        inversion = case.get('ident') and case['io'] == 'string' and shape.count('DRLock') >= 2
        ctx.finding(f'run:{type(out["error"]).__name__}:{"reconnect-with-identification-vs-caller" if inversion else shape}', case, repr(out['error'])[:400])
        return
    if out.get('connect_exc') is not None:
        ctx.finding(f'initial-connect-fails:{type(out["connect_exc"]).__name__}', case, repr(out['connect_exc'])[:300])
        return
    faulty = bool(case['faults']) and any(int(k) < len(world.commands) for k in case['faults'])
    spans = [(r['t0'], r['t1']) for r in out['results']]
    overlapping = any(a[0] < b[1] and b[0] < a[1] and (a is not b) for i, a in enumerate(spans) for b in spans[i + 1:])
    if overlapping and faulty:
        ctx.nt(s.trace_hash())
    for r in out['results']:
        op = r['op']
        sub = dict(case, focus=op)
        exc = r.get('exc')
        if exc is not None and not isinstance(exc, CommunicationFailedError):
            empty_multi = op[0] == 'multi' and not op[1]
            ctx.finding(f'wrong-exception:{op[0]}:{type(exc).__name__}{":empty-request-list" if empty_multi else ""}', sub, repr(exc)[:300])
            return
        elapsed = r['t1'] - r['t0']
        if op[0] == 'comm':
            want = ('R:' + op[1]) if case['io'] == 'string' else bytes(reversed(encode(case, op[1])))
            if exc is None and r['reply'] != want:
                ctx.finding(f'reply-belongs-to-other-command:{case["io"]}', sub, f'communicate({op[1]!r}) returned {r["reply"]!r}; device log {world.commands!r}'[:500])
                return
            # (4) framing is independent of the chunking: a command the device answered completely (whatever the segmentation,
            # also with unsolicited data after the reply) succeeds, unless the connection was lost meanwhile
            if exc is not None:
                cmd = op[1].encode() if case['io'] == 'string' else encode(case, op[1])
                seen = [(i, t) for i, (t, c) in enumerate(world.commands) if c == cmd]
                if len(seen) == 1:
                    idx, tcmd = seen[0]
                    fault = case['faults'].get(str(idx))
                    late_pending = any(case['faults'].get(str(j)) == 'late' for j in range(idx))
                    lost = any(tcmd - 1e-9 <= td <= r['t1'] for td in world.disconnects)
                    if fault in (None, 'chunk1', 'chunk3', 'garbage', 'garbage-joined') and not lost and not late_pending:
                        ctx.finding(f'call-failed-although-device-replied:{fault or "plain"}:{case["io"]}', sub,
                                    f'communicate({op[1]!r}) -> {exc!r}; device got it at +{tcmd - s.t0:.2f}, eol {case.get("eol")!r}'[:400])
                        return
        if op[0] == 'multi' and exc is None:
            cmds = [c for c, e, d in op[1] if e]
            want = [('R:' + c) if case['io'] == 'string' else bytes(reversed(encode(case, c))) for c in cmds]
            if list(r['reply']) != want:
                ctx.finding(f'multicomm-replies-wrong:{case["io"]}', sub, f'{r["reply"]!r} vs {want!r}')
                return
        if op[0] == 'multi' and len(op[1]) > 1:
            # (2) the commands of one multicomm are contiguous in the device log and separated by their delays
            enc = [encode(case, c) if case['io'] == 'bytes' else c.encode() for c, _, _ in op[1]]
            pos = [i for i, (t, c) in enumerate(world.commands) if c in enc]
            if pos and pos != list(range(pos[0], pos[0] + len(pos))):
                ctx.finding('multicomm-interleaved-with-other-traffic', sub, f'device saw {[c for _, c in world.commands]!r}')
                return
            if exc is None:
                times = {c: t for t, c in world.commands}
                for (c1, _, d1), (c2, _, _) in zip(op[1], op[1][1:]):
                    e1, e2 = (encode(case, c1) if case['io'] == 'bytes' else c1.encode()), (encode(case, c2) if case['io'] == 'bytes' else c2.encode())
                    if e1 in times and e2 in times and times[e2] - times[e1] < d1 - 1e-9:
                        ctx.finding(f'multicomm-delay-not-honoured:{case["io"]}', sub, f'{c1} at +{times[e1] - s.t0:.2f}, {c2} at +{times[e2] - s.t0:.2f}, delay {d1}')
                        return
        ctx.ok('call-consistent')
    # (5) silence: no call takes longer than lock waiting + its own transaction; checked globally: every failing call ends
    # at most timeout + 1.2 s after its command reached the device
    for r in out['results']:
        if r.get('exc') is not None and r['op'][0] == 'comm':
            cmd = encode(case, r['op'][1]) if case['io'] == 'bytes' else r['op'][1].encode()
            sent = [t for t, c in world.commands if c == cmd]
            if sent and r['t1'] - sent[0] > TIMEOUT + 1.2:
                ctx.finding('failure-later-than-timeout', dict(case, focus=r['op']), f'command seen by the device at +{sent[0] - s.t0:.2f}, call failed at +{r["t1"] - s.t0:.2f}')
                return
    # connection state becomes visible after a disconnect
    for td in (world.disconnects if case.get('close_all_from') is None else []):     # (a device closing every connection: the state flaps)
        later = [r for r in out['results'] if r['t0'] >= td and r.get('exc') is not None]
        for r in later[:1]:
            if r['connected_after'] and not any(ta >= td for ta in world.accepted[1:]):
                ctx.finding('is_connected-true-after-disconnect', case, f'disconnect at +{td - s.t0:.2f}, call at +{r["t0"] - s.t0:.2f} failed but is_connected stayed True')
                return
    # (6) reconnection is attempted no more often than the reconnect interval allows
    attempts = [t for t, _ in out['net'].attempts]
    by_poller = ['poll' in n.lower() for n in out['net'].attempt_threads]
    # the framework's poll thread reaches read_is_connected both through doPoll (every pollinterval) and through the periodic
    # poll of the parameter is_connected (every slowinterval): its second attempt within one interval is the known finding
    # C16:...:poll-thread-main-and-parameter-poll; it is told apart by judging the attempts without these duplicates first
    real = case.get('poller') == 'real'
    known = None
    for td, mark in zip(world.disconnects, world.disconnect_marks):
        after = [(t, p) for n_, (t, p) in enumerate(zip(attempts, by_poller)) if t >= td and n_ >= mark]
        # two sources try to reconnect: the poll thread and the callers (rate limited to once per interval). any window shorter
        # than the interval may hold one attempt of the callers and one of the poll thread - two of the framework's own poll
        # thread (its two paths, the known finding when a caller's attempt comes on top); anything more is not tolerated
        for i, (a, _) in enumerate(after):
            # (the rate limit works on the time of the decision; an attempt is recorded when the connection is made, which is
            # later by the wait for the lock and the connection delay: 5 % tolerance)
            win = [x for x in after[i:] if x[0] - a < INTERVAL * 0.95]
            npoll = sum(1 for _, p in win if p)
            ncall = len(win) - npoll
            text = f'connection attempts at {[(round(t - s.t0, 2), n) for t, n in zip(attempts, out["net"].attempt_threads) if t >= td][:8]} (interval {INTERVAL})'
            # (a sweep of the framework's poll thread makes up to two attempts - the known finding -, and a sweep triggered
            # in between, e.g. by a caller noticing the loss, two more; a device closing every connection again used to get
            # attempts as fast as the loop runs)
            if ncall > 1 or npoll > (4 if real else 1):
                ctx.finding('reconnect-attempts-too-frequent' + (':poll-thread' if npoll > 2 else ''), case, text)
                return
            if real and npoll >= 2 and ncall + npoll > 2:
                known = text
    if known:
        ctx.finding('reconnect-attempts-too-frequent:poll-thread-main-and-parameter-poll', case, known)
        return
    ctx.ok('reconnect-rate')
    # (7) after a successful reconnect every registered callback ran exactly once; the connection heals
    nrec = max(0, len(world.accepted) - 1)
    if case.get('ident') and case['io'] == 'string':
        # a connection is established when the identification exchange went through (an accepted connection may be closed before)
        nrec = max(0, len(world.idents) - 1)
    # (with a polled module the device sees commands until the end: a connection lost shortly before has no time to heal)
    if world.disconnects and not out.get('connected_at_end') and case.get('close_all_from') is None and \
            max(world.disconnects) + INTERVAL * (case.get('refuse', 0) + 2) + 1 <= out.get('end_time', 0):
        ctx.finding('not-reconnected-at-the-end', case, f'disconnects {len(world.disconnects)}, accepted connections {len(world.accepted)}')
        return
    if out.get('foreign_callbacks'):
        ctx.finding('reconnect-callback-of-other-communicator-ran', case, repr(out['foreign_callbacks']))
        return
    for name, n in out['callbacks'].items():
        if n != nrec:
            ctx.finding(f'reconnect-callback-count:{"missing" if n < nrec else "too-many"}', case, f'{nrec} reconnects, callback {name} ran {n} times')
            return
    ctx.ok('self-healing')
    if case.get('poller') == 'real' and 'dev_polls' in out and case.get('close_all_from') is None:
        # polling resumes: the modules using the communicator are polled again right after every reconnect (not only at their
        # next regular turn)
        established = world.idents if case.get('ident') and case['io'] == 'string' else world.accepted
        polls_seen = [tc for tc, cmd in world.commands if cmd.strip().rstrip(b'.') == b'p']
        for k, t in enumerate(established[1:], 1):
            # (a poll under way at the time of the reconnect - begun before, waiting for the callers holding the communicator - whose
            # command reaches the device on the new connection is polling resumed as well)
            ends = out.get('dev_poll_ends', [])
            under_way = [(p, ends[n_] if n_ < len(ends) else float('inf')) for n_, p in enumerate(out['dev_polls']) if p < t and (n_ >= len(ends) or ends[n_] > t)]
            straddling = any(any(t <= tc <= e for tc in polls_seen) for _, e in under_way)
            # (the poll thread is busy until that poll is over: the time for the next one counts from there)
            free = max([t] + [e for _, e in under_way])
            if free + TIMEOUT + 1 < out.get('end_time', 0) and not straddling and not any(t <= p <= free + TIMEOUT + 1 for p in out['dev_polls']):
                nxt = min([p for p in out['dev_polls'] if p > t] or [float('inf')])
                ctx.finding(f'polling-not-resumed-after-reconnect:{"first" if k == 1 else "later"}', case,
                            f'reconnect {k} at {t - s.t0:.2f}: next poll at {nxt - s.t0:.2f}')
                return
        ctx.ok('polling-resumed')
    if case.get('poller') == 'real':
        ctx.label('poller:real' + (':with-polled-module' if 'dev_polls' in out else ''))
    if case.get('ident') and case['io'] == 'string':
        ctx.label('identification-on-connect')
    ctx.label(f'io:{case["io"]}', f'eol:{case.get("eol", chr(10))!r}', f'disconnects:{len(world.disconnects)}', *[f'fault:{v}' for k, v in case['faults'].items() if int(k) < len(world.commands)])
    ctx.sample({'io': case['io'], 'callers': case['callers'], 'faults': case['faults'], 'device_log': [(round(t - s.t0, 2), c.decode('latin-1')) for t, c in world.commands][:12]}, every=97)


def run_shard(ctx, shard):
    drive(scenario(), lambda case: check(ctx, case), shard['n'], ctx.seed * 1000 + shard['idx'])


def run_case(ctx, case):
    try:
        ok = case['io'] in ('string', 'bytes') and all(op[0] in ('comm', 'write', 'multi', 'sleep') for ops in case['callers'] for op in ops) and \
            all(v in ('garbage', 'garbage-joined', 'late', 'silent', 'close-before', 'close-inside', 'close-after', 'chunk1', 'chunk3') for v in case['faults'].values()) and \
            all(isinstance(op[1], (list, str, int, float)) for ops in case['callers'] for op in ops) and \
            all(len(r) == 3 for ops in case['callers'] for op in ops if op[0] == 'multi' for r in op[1]) and case['callers']
        if case['io'] == 'bytes':
            ok = ok and not any(op[0] == 'write' for ops in case['callers'] for op in ops)
    except (KeyError, TypeError, ValueError):
        ok = False
    if ok:
        check(ctx, case)
