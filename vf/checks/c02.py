"""C02 - valid values survive the wire encoding and the text encoding

domain : datatype trees x members of the value set (generated from the value set: limits, far grid
         points, empty/maximal containers, every enum member, quote/backslash/newline/non-ASCII strings,
         all byte values, structs with and without optional members)
oracle : round trips  export -> strict JSON -> import  on the node datatype and on the datatype a client
         rebuilds from the description; prescribed JSON kind at every position; text round trip
"""
import json
import math

from hypothesis import strategies as st

from vf import refmodel as rm
from vf import specs
from vf.runner import drive
from vf.checks.c01 import frappy_frame

PROPERTY = 'C02'
LEVEL = 'exploration'
RULE = ('Hypothesis draws a datatype tree T (depth <= 3) and 8 members v of its value set (constructively, incl. '
        'limit values, grid points up to 2^40 steps from zero, empty and maximal containers, all enum members, special '
        'characters, arbitrary bytes, optional members present/absent); every (T, v) is one evaluation of all round-trip '
        'clauses. non-trivial: v differs from the default of T and T is nested or v sits on a limit/grid catalogue '
        'point; distinct by (T, v).')
ASSUMPTIONS = ['strict JSON = json.dumps(allow_nan=False) / json.loads', 'float leaves compare with ==; text forms of float '
               'leaves only need to be stable (identical text after one more round), as the property states']

N_EXAMPLES = {'quick': 900, 'thorough': 12000}
FMTS = [None, None, '%g', '%.3f', '%.2e', '%.10g', '%.1f']


def shards(tier, seed):
    return [{'idx': i, 'n': N_EXAMPLES[tier]} for i in range(16)]


def wire_kind(T, j, path='$'):
    """-> list of problems: the JSON kind SECoP prescribes per type, at every position"""
    k = T['k']
    if k == 'double':
        return [] if rm.isnum(j) and rm.finite(j) else [f'double-as-{rm.jkind(j)}']
    if k in ('int', 'scaled', 'enum'):
        return [] if type(j) is int else [f'{k}-as-{type(j).__name__}']
    if k == 'bool':
        return [] if type(j) is bool else [f'bool-as-{rm.jkind(j)}']
    if k == 'string':
        return [] if type(j) is str else [f'string-as-{rm.jkind(j)}']
    if k == 'blob':
        return [] if type(j) is str and rm.B64.match(j) else [f'blob-as-{rm.jkind(j)}']
    if k == 'array':
        if type(j) is not list:
            return [f'array-as-{rm.jkind(j)}']
        return [p for e in j for p in wire_kind(T['of'], e)]
    if k == 'tuple':
        if type(j) is not list or len(j) != len(T['of']):
            return [f'tuple-as-{rm.jkind(j)}']
        return [p for t, e in zip(T['of'], j) for p in wire_kind(t, e)]
    if k == 'struct':
        if type(j) is not dict or set(j) - set(T['members']):
            return [f'struct-as-{rm.jkind(j)}']
        return [p for n, e in j.items() for p in wire_kind(T['members'][n], e)]
    raise ValueError(T)


def has_float_leaf(T):
    return bool(rm.kinds(T) & {'double', 'scaled'})


def add_fmt(T, fmt):
    """put a SECoP conforming fmtstr on double leaves (scaled use the default)"""
    if T['k'] == 'double' and fmt:
        return dict(T, fmtstr=fmt)
    if T['k'] == 'array':
        return dict(T, of=add_fmt(T['of'], fmt))
    if T['k'] == 'tuple':
        return dict(T, of=[add_fmt(t, fmt) for t in T['of']])
    if T['k'] == 'struct':
        return dict(T, members={n: add_fmt(t, fmt) for n, t in T['members'].items()})
    return T


def evaluate(ctx, T, v, dt=None, cdt=None):
    from frappy.datatypes import get_datatype
    from frappy.errors import BadValueError
    ctx.ev()
    case = {'kind': 'tv', 'T': T, 'v': v}
    if dt is None:
        dt = specs.build(T)
    try:
        iv = dt.validate(v)
    except Exception as e:  # noqa - a generated member of the value set is rejected: C01's business, count it
        ctx.label('value-rejected-by-validate')
        if not isinstance(e, BadValueError) or rm.status(T, v, 'drv')[0] == 'A':
            ctx.finding(f'valid-rejected:{T["k"]}:{type(e).__name__}', case, repr(e))
        return
    civ = rm.canon(iv)
    nontrivial = civ != rm.canon(rm.default_value(T)) and (rm.depth(T) >= 1 or T['k'] in ('double', 'int', 'scaled', 'blob', 'string'))
    if nontrivial:
        ctx.nt((specs.tojson(T), specs.tojson(v)))
    for k in rm.kinds(T):
        ctx.label(f'kind:{k}')
    ctx.sample({'T': T, 'v': v}, every=1999)
    # (1) strict JSON
    try:
        text = json.dumps(dt.export_value(iv), allow_nan=False)
        j = json.loads(text)
    except Exception as e:  # noqa
        ctx.finding(f'export:{T["k"]}:{type(e).__name__}:{frappy_frame(e)}', case, repr(e))
        return
    ctx.ok('strict-json')
    # (2) prescribed kind at every position
    probs = wire_kind(T, j)
    if probs:
        ctx.finding(f'wirekind:{sorted(set(probs))[0]}', case, f'{iv!r} exported as {text}')
    else:
        ctx.ok('wire-kind')
    # (3) node side import
    try:
        back = rm.canon(dt.validate(dt.import_value(j)))
        # equal to what validate gave, and (reference model, independent of frappy's conversions) still denoting the member v
        if back != civ or rm.denotes(T, v, None, back, 'drv'):
            ctx.finding(f'roundtrip:node:{T["k"]}:changed', case, f'{v!r} -> {civ!r} -> {text} -> {back!r} {rm.denotes(T, v, None, back, "drv")[:1]!r}')
        else:
            ctx.ok('roundtrip-node')
    except Exception as e:  # noqa
        ctx.finding(f'roundtrip:node:{T["k"]}:{type(e).__name__}', case, f'{civ!r} -> {text} -> {e!r}')
    # (4) client side import with the rebuilt datatype
    try:
        if cdt is None:
            cdt = get_datatype(json.loads(json.dumps(dt.export_datatype())), 'p')
        back = rm.canon(cdt.validate(cdt.import_value(j)))
        if back != civ or rm.denotes(T, v, None, back, 'drv'):
            ctx.finding(f'roundtrip:client:{T["k"]}:changed', case, f'{v!r} -> {civ!r} -> {text} -> {back!r} {rm.denotes(T, v, None, back, "drv")[:1]!r}')
        else:
            ctx.ok('roundtrip-client')
    except Exception as e:  # noqa
        ctx.finding(f'roundtrip:client:{T["k"]}:{type(e).__name__}', case, f'{civ!r} -> {text} -> {e!r}')
    # (5) text form
    try:
        s = dt.to_string(iv)
    except Exception as e:  # noqa
        ctx.finding(f'text:to_string:{T["k"]}:{type(e).__name__}', case, repr(e))
        return
    try:
        v2 = dt.from_string(s)
    except Exception as e:  # noqa
        ctx.finding(f'text:from_string:{T["k"]}:{type(e).__name__}:{shape(T, v)}', case, f'{civ!r} -> {s!r} -> {e!r}')
        return
    try:
        s2 = dt.to_string(v2)
    except Exception as e:  # noqa
        ctx.finding(f'text:to_string2:{T["k"]}:{type(e).__name__}', case, repr(e))
        return
    if normzero(s2) != normzero(s):
        ctx.finding(f'text:unstable:{T["k"]}:{"float" if has_float_leaf(T) else "exact"}', case, f'{civ!r} -> {s!r} -> {v2!r} -> {s2!r}')
    elif not has_float_leaf(T) and rm.canon(v2) != civ:
        ctx.finding(f'text:changed:{T["k"]}', case, f'{civ!r} -> {s!r} -> {rm.canon(v2)!r}')
    else:
        ctx.ok('text-roundtrip')
    # (6) what the client's setParameterFromString has to put on the wire is serialisable
    try:
        json.dumps(dt.export_value(v2), allow_nan=False)
        ctx.ok('text-value-exportable')
    except Exception as e:  # noqa
        ctx.finding(f'text:export:{T["k"]}:{type(e).__name__}', case, f'{s!r} -> {v2!r}: {e!r}')
    # (7) the text of the client's cache entry (str(item), "may be used in this form for setParameterFromString")
    try:
        from frappy.client import CacheItem
        if cdt is None:
            cdt = get_datatype(json.loads(json.dumps(dt.export_datatype())), 'p')
        item = CacheItem(cdt.import_value(json.loads(json.dumps(dt.export_value(iv)))), 1.0, None, cdt)
        text_ = str(item)
        v3 = cdt.from_string(text_)
        if not has_float_leaf(T) and rm.canon(v3) != civ:
            ctx.finding(f'text:cache-item:changed:{T["k"]}', case, f'{civ!r} -> str(item) {text_!r} -> {rm.canon(v3)!r}')
        else:
            ctx.ok('text-cache-item')
    except Exception as e:  # noqa
        ctx.finding(f'text:cache-item:{T["k"]}:{type(e).__name__}', case, f'{civ!r}: {e!r}'[:300])


ZERO = None


def normzero(s):
    """text forms are compared modulo the sign of a zero ('-0.000' and '0.000' denote the same number)"""
    global ZERO
    if ZERO is None:
        import re
        ZERO = re.compile(r'-(0(?:\.0*)?(?:e[+-]?\d+)?)(?![\d.])')
    return ZERO.sub(r'\1', s)


def deep_merge(cur, new):
    """members not sent keep their current value, also inside nested structs"""
    if isinstance(cur, dict) and isinstance(new, dict):
        res = dict(cur)
        for k, v in new.items():
            res[k] = deep_merge(cur.get(k), v)
        return res
    if isinstance(cur, list) and isinstance(new, list):
        return [deep_merge(cur[i] if i < len(cur) else None, v) for i, v in enumerate(new)]
    return new


def partial_clause(ctx, T, full, part, dt, cdt):
    """a client sends a struct without some optional members: the node merges it into the current value"""
    case = {'kind': 'partial', 'T': T, 'full': full, 'part': part}
    ctx.ev()
    try:
        cur = dt.validate(full)
        j = json.loads(json.dumps(cdt.export_value(cdt.validate(part)), allow_nan=False))
        got = rm.canon(dt.validate(dt.import_value(j), cur))
        want = deep_merge(rm.canon(cur), rm.canon(dt.validate(part)))
    except Exception as e:  # noqa
        ctx.finding(f'partial:{type(e).__name__}:{frappy_frame(e)}', case, repr(e))
        return
    if set(part) != set(full):
        ctx.nt(('partial', specs.tojson(T), specs.tojson(part)))
    if got != want:
        ctx.finding('partial:not-merged', case, f'{want!r} expected, got {got!r}')
    else:
        ctx.ok('partial-struct-merged')


def shape(T, v):
    if T['k'] == 'tuple' and len(T['of']) == 1:
        return 'one-member-tuple'
    return 'any'


@st.composite
def tv_case(draw):
    T = add_fmt(draw(specs.tree_spec(3)), draw(st.sampled_from(FMTS)))
    case = {'kind': 'tvs', 'T': T, 'vs': [draw(specs.valid_value(T, True)) for _ in range(8)]}
    if T['k'] == 'struct':
        case['partial'] = draw(specs.valid_value(T, False))
    return case


def rescaled(ctx, T, v):
    """a scaled type (or an array of it) whose scale is changed after construction, as the configuration of a module does
    (x = Param(scale=0.01)): all conversions use the scale in effect. The type is built with a ten times coarser grid and then
    given the scale of T; it must behave as T built directly"""
    leaf = T
    while leaf['k'] == 'array':
        leaf = leaf['of']
    if leaf['k'] != 'scaled' or leaf.get('abs') or abs(leaf['lo']) % 10 or abs(leaf['hi']) % 10:
        return

    def coarse(t):
        if t['k'] == 'array':
            return dict(t, of=coarse(t['of']))
        return dict(t, scale=t['scale'] * 10, lo=t['lo'] // 10, hi=t['hi'] // 10)
    try:
        dt = specs.build(coarse(T))
        dt.setProperty('scale', leaf['scale'])
        dt.checkProperties()
        want = json.loads(json.dumps(specs.build(T).export_datatype()))
        got = json.loads(json.dumps(dt.export_datatype()))
    except Exception as e:   # noqa
        ctx.label(f'rescale-not-possible:{type(e).__name__}')
        return
    if got != want:
        ctx.label('rescaled-type-described-differently')      # (limits are kept as physical values: rounding may differ)
        return
    ctx.label('rescaled')
    evaluate(ctx, T, v, dt=dt)


def run_shard(ctx, shard):
    drive(tv_case(), lambda case: run_case(ctx, case), shard['n'], ctx.seed * 1000 + shard['idx'])
    if shard['idx'] == 0:
        # every byte value, every enum member, extreme doubles - enumerated
        T = {'k': 'blob', 'min': 0, 'max': 255}
        for i in range(256):
            evaluate(ctx, T, bytes([i]) * (1 + i % 3))
        evaluate(ctx, {'k': 'blob', 'min': 0, 'max': 256}, bytes(range(256)))
        for v in (rm.FMAX, -rm.FMAX, 5e-324, -5e-324, 2.2250738585072014e-308, 0.1 + 0.2, 1e22, 1e23, -0.0, 123456789.12345679):
            evaluate(ctx, {'k': 'double', 'min': None, 'max': None, 'abs': 0.0, 'rel': 1.2e-7}, v)


def run_case(ctx, case):
    if case['kind'] == 'tvs':
        from frappy.datatypes import get_datatype
        T = case['T']
        dt = specs.build(T)
        try:
            cdt = get_datatype(json.loads(json.dumps(dt.export_datatype())), 'p')
        except Exception:  # noqa - reported per value below
            cdt = None
        for v in case['vs']:
            evaluate(ctx, T, v, dt, cdt)
        for v in case['vs'][:3]:
            rescaled(ctx, T, v)
        if case.get('partial') is not None and cdt is not None:
            partial_clause(ctx, T, case['vs'][0], case['partial'], dt, cdt)
    elif case['kind'] == 'partial':
        from frappy.datatypes import get_datatype
        dt = specs.build(case['T'])
        cdt = get_datatype(json.loads(json.dumps(dt.export_datatype())), 'p')
        partial_clause(ctx, case['T'], case['full'], case['part'], dt, cdt)
    else:
        evaluate(ctx, case['T'], case['v'])
        rescaled(ctx, case['T'], case['v'])
