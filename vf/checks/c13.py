"""C13 - poller: bounded staleness, no starvation, survives failing reads

the real poll thread body (Module._Module__pollThread) is called in the harness thread with a
virtual clock (every time.time() ticks 1 us; waiting jumps) and a virtual trigger event with timers.
"""
import re
import types
import builtins

from hypothesis import strategies as st

from vf.runner import drive

PROPERTY = 'C13'
LEVEL = 'exploration'
RULE = ('Hypothesis draws 1-4 modules on one poll thread: poll interval (0.1..30 s), slow interval (0.1..60 s), durations of '
        'read_value/read_status and of 0-3 further read functions (0, short, longer than the interval), failure scripts (never, always, '
        'alternating, first three calls) with SECoP errors, silent errors, arbitrary exceptions and communication failures, poll flags '
        '(plain read_, @nopoll, ReadHandler, CommonReadHandler), and timed external events (pollinterval change, fast poll on/off, '
        'immediate trigger). The thread body runs for >= 20 slow intervals of virtual time. One evaluation = one scenario. non-trivial: '
        '>= 2 modules with different intervals and >= 1 failing or slow read; distinct by scenario.')
ASSUMPTIONS = ['bound for the main poll: interval + 2*S (S = one pass of the loop body: sum of all doPoll durations + the longest slow read); '
               'the statement says "one sweep" - see DESIGN.md section 5', 'bound for slow polls: 3*slowinterval + 2*n*S',
               'the thread body is driven directly (as test_poller.py does), module wiring through HasIO is not part of this check']

N_EXAMPLES = {'quick': 120, 'thorough': 2500}
EPS = 0.01


def shards(tier, seed):
    return [{'idx': i, 'n': N_EXAMPLES[tier]} for i in range(16)]


class Stop(BaseException):
    pass


class Clock:
    def __init__(self, t0):
        self.t = t0
        self.horizon = 1e99

    def time(self):
        self.t += 1e-6
        if self.t > self.horizon:
            raise Stop
        return self.t


class VEvent:
    """trigger event in virtual time; timers model actions of other threads"""

    def __init__(self, clock):
        self.flag = False
        self.clock = clock
        self.timers = []

    def set(self):
        self.flag = True

    def clear(self):
        self.flag = False

    def is_set(self):
        return self.flag

    def wait(self, timeout=None):
        if self.flag:
            return True
        target = self.clock.t + (timeout if timeout is not None else 1e9)
        due = [x for x in self.timers if x[0] <= target]
        if due:
            x = min(due, key=lambda y: y[0])
            self.timers.remove(x)
            self.clock.t = max(self.clock.t, x[0])
            x[1]()
            return self.flag
        self.clock.t = target
        if self.clock.t > self.clock.horizon:
            raise Stop
        return self.flag


SCRIPTS = ['never', 'never', 'always', 'alternate', 'first3', 'every5th']
EXCS = ['HardwareError', 'SilentCommunicationFailedError', 'ValueError', 'CommunicationFailedError', 'ZeroDivisionError', 'KeyError']
DUR = [0.0, 0.0, 0.01, 0.3, 2.0]


def fails(script, n):
    return {'never': False, 'always': True, 'alternate': n % 2 == 1, 'first3': n < 3, 'every5th': n % 5 == 4}[script]


@st.composite
def scenario(draw):
    mods = []
    for i in range(draw(st.integers(1, 4))):
        params = []
        for j in range(draw(st.integers(0, 3))):
            params.append({'dur': draw(st.sampled_from(DUR)), 'script': draw(st.sampled_from(SCRIPTS)), 'exc': draw(st.sampled_from(EXCS)),
                           'flag': draw(st.sampled_from(['poll', 'poll', 'nopoll', 'handler', 'common', 'noread']))})
        mods.append({'pollinterval': draw(st.sampled_from([0.1, 0.5, 1.0, 5.0, 30.0])), 'slowinterval': draw(st.sampled_from([0.1, 1.0, 5.0, 15.0, 60.0])),
                     'dv': draw(st.sampled_from([0.0, 0.05, 1.0, 3.0])), 'ds': draw(st.sampled_from([0.0, 0.05, 0.5])),
                     'vscript': draw(st.sampled_from(SCRIPTS)), 'vexc': draw(st.sampled_from(EXCS)), 'params': params,
                     # the additional reads a module does once at start-up (initialReads) fail
                     'initial_reads': draw(st.sampled_from([None] * 6 + EXCS))})
    events = []
    for _ in range(draw(st.integers(0, 3))):
        events.append({'at': draw(st.sampled_from([0.5, 3.0, 20.0, 100.0, 333.3])), 'mod': draw(st.integers(0, len(mods) - 1)),
                       'kind': draw(st.sampled_from(['interval', 'interval', 'fast-on', 'fast-off', 'trigger'])),
                       'value': draw(st.sampled_from([0.1, 0.5, 2.0, 10.0, 60.0]))})
    if draw(st.integers(0, 4)) == 0:
        # the interval is changed while fast polling is on, then fast polling is switched off: the new interval applies
        mi = draw(st.integers(0, len(mods) - 1))
        t1 = draw(st.sampled_from([0.5, 3.0, 20.0]))
        events = [{'at': t1, 'mod': mi, 'kind': 'fast-on', 'value': 0.25},
                  {'at': t1 + draw(st.sampled_from([1.0, 5.0])), 'mod': mi, 'kind': 'interval', 'value': draw(st.sampled_from([0.5, 2.0, 10.0]))},
                  {'at': t1 + draw(st.sampled_from([7.0, 30.0])), 'mod': mi, 'kind': 'fast-off', 'value': 0.25}]
    return {'kind': 'scenario', 'mods': mods, 'events': sorted(events, key=lambda e: e['at']),
            't0': draw(st.sampled_from([1_000_000.0, 1_000_000.37, 1_700_000_000.123]))}


def build(case, clock, log):
    import frappy.errors as ferr
    from frappy.core import Readable, Parameter, FloatRange, nopoll
    from frappy.rwhandler import ReadHandler, CommonReadHandler
    from frappy.lib import generalConfig
    generalConfig.testinit(omit_unchanged_within=0)
    srv = types.SimpleNamespace(dispatcher=types.SimpleNamespace(announce_update=lambda m, p: None), secnode=None)

    class L:
        handlers = []

        def debug(self, *a, **k):
            pass
        info = warning = error = exception = debug
    mods = []
    for i, ms in enumerate(case['mods']):
        name = f'm{i}'
        counters = {}
        attrs = {}

        def mkread(fname, dur, script, exc, name=name, counters=counters):
            def read(self, *args):
                n = counters.get(fname, 0)
                counters[fname] = n + 1
                log.append((clock.t, name, fname, 'poller'))
                clock.t += dur
                if fails(script, n):
                    cls = getattr(ferr, exc, None) or getattr(builtins, exc)
                    raise cls('scripted failure')
                return float(n % 7)
            read.__name__ = fname
            return read
        handler_names = [f'p{j}' for j, p in enumerate(ms['params']) if p['flag'] == 'handler']
        common_names = [f'p{j}' for j, p in enumerate(ms['params']) if p['flag'] == 'common']
        for j, p in enumerate(ms['params']):
            pn = f'p{j}'
            attrs[pn] = Parameter(pn, FloatRange(), default=0)
            if p['flag'] == 'poll':
                attrs['read_' + pn] = mkread('read_' + pn, p['dur'], p['script'], p['exc'])
            elif p['flag'] == 'nopoll':
                attrs['read_' + pn] = nopoll(mkread('read_' + pn, p['dur'], p['script'], p['exc']))
        if handler_names:
            p = next(p for p in ms['params'] if p['flag'] == 'handler')
            inner = mkread('read_handler', p['dur'], p['script'], p['exc'])

            def read_handler(self, pname, inner=inner):
                return inner(self, pname)
            attrs['read_handler'] = ReadHandler(handler_names)(read_handler)
        if common_names:
            p = next(p for p in ms['params'] if p['flag'] == 'common')
            inner2 = mkread('read_common', p['dur'], p['script'], p['exc'])

            def read_common(self, inner2=inner2, names=tuple(common_names)):
                inner2(self)
                for n_ in names:
                    setattr(self, n_, 1.0)
            attrs['read_common'] = CommonReadHandler(common_names)(read_common)
        attrs['read_value'] = mkread('read_value', ms['dv'], ms['vscript'], ms['vexc'])

        def read_status(self, ds=ms['ds']):
            clock.t += ds
            return (100, '')
        attrs['read_status'] = read_status

        def doPoll(self, name=name):
            log.append((clock.t, name, 'doPoll', 'poller'))
            self.read_value()
            self.read_status()
        attrs['doPoll'] = doPoll
        if ms.get('initial_reads'):
            def initialReads(self, exc=ms['initial_reads'], name=name):
                log.append((clock.t, name, 'initialReads', 'poller'))
                cls_ = getattr(ferr, exc, None) or getattr(builtins, exc)
                raise cls_('scripted failure of the initial reads')
            attrs['initialReads'] = initialReads
        cls = type(f'C{i}', (Readable,), attrs)
        m = cls(name, L(), {'description': '', 'pollinterval': {'value': ms['pollinterval']}, 'slowinterval': ms['slowinterval']}, srv)
        m.earlyInit()
        mods.append(m)
    return mods


def durations(case):
    """S = one pass of the loop body"""
    dpoll = sum(m['dv'] + m['ds'] for m in case['mods'])
    slow = [m['dv'] for m in case['mods']] + [p['dur'] for m in case['mods'] for p in m['params'] if p['flag'] in ('poll', 'handler', 'common')]
    return dpoll + max(slow + [0.0])


def check_scenario(ctx, case):
    import frappy.modulebase as mb
    ctx.ev()
    clock = Clock(case['t0'])
    log = []
    real_time = mb.time
    mb.time = types.SimpleNamespace(time=clock.time)
    try:
        mods = build(case, clock, log)
        maxslow = max(m['slowinterval'] for m in case['mods'])
        horizon = clock.t + 22 * maxslow + 120
        ev = VEvent(clock)
        owner = mods[0]
        owner.triggerPoll = ev
        clock.horizon = horizon
        started = []
        changes = []      # (time, module index, new main interval)

        def mk_event(e):
            def fire():
                m = mods[e['mod']]
                if e['kind'] == 'interval':
                    m.pollinterval = max(0.1, min(120.0, e['value']))
                    if not m.pollInfo.fast_flag:
                        changes.append((clock.t, e['mod'], m.pollinterval))
                elif e['kind'] == 'fast-on':
                    m.setFastPoll(True, 0.25)
                    changes.append((clock.t, e['mod'], 0.25))
                elif e['kind'] == 'fast-off':
                    m.setFastPoll(False)
                    changes.append((clock.t, e['mod'], m.pollinterval))
                else:
                    m.pollInfo.trigger(True)
                    changes.append((clock.t, e['mod'], None))
            return fire
        for e in case['events']:
            ev.timers.append((case['t0'] + e['at'], mk_event(e)))
        ended = 'returned'
        try:
            owner._Module__pollThread(mods, lambda: started.append(clock.t))
        except Stop:
            ended = 'horizon'
        except BaseException as e:   # noqa - the loop must survive everything the read functions do
            ended = f'{type(e).__name__}: {e}'
        clock.horizon = 1e99
    finally:
        mb.time = real_time
    S = durations(case)
    slowish = any(p['dur'] >= 0.3 or p['script'] != 'never' for m in case['mods'] for p in m['params']) or \
        any(m['vscript'] != 'never' or m['dv'] >= 1.0 for m in case['mods'])
    if len({m['pollinterval'] for m in case['mods']}) >= 2 and slowish:
        ctx.nt(repr(case))
    ctx.label(f'mods:{len(case["mods"])}', f'events:{len(case["events"])}', f'ended:{ended if ended in ("horizon", "returned") else "exception"}')
    ctx.sample({'scenario': case, 'S': S, 'first_calls': [(round(t - case['t0'], 3), n, f) for t, n, f, _ in log[:10]], 'calls': len(log)}, every=97)
    # (4) the loop never exits while modules remain
    if ended != 'horizon':
        ctx.finding(f'thread-ended:{ended.split(":")[0]}', case, f'{ended}; last call {log[-1] if log else None}')
        return
    ctx.ok('thread-survives')
    # (6) started callback exactly once
    if len(started) != 1:
        ctx.finding(f'started-callback:{len(started)}-times', case, repr(started))
    else:
        ctx.ok('started-once')
    npolled = sum(len(m.pollInfo.polled_parameters) for m in mods)
    for i, (m, ms) in enumerate(zip(mods, case['mods'])):
        name = f'm{i}'
        starts = [t for t, n, f, _ in log if n == name and f == 'doPoll']
        # (1) main poll gaps; the interval in force changes at the recorded change times
        mychanges = [(t, v) for t, mi, v in changes if mi == i]

        def interval_at(t, ms=ms, mychanges=mychanges):
            cur = ms['pollinterval']
            worst = cur
            for tc, v in mychanges:
                if tc <= t and v is not None:
                    cur = v
            return cur
        if not starts:
            ctx.finding('main-poll:never-started', case, name)
            continue
        for a, b in zip(starts, starts[1:]):
            # while an interval change happens inside the gap the longer of the two applies
            iv = max([interval_at(a)] + [v for tc, v in mychanges if a <= tc <= b and v is not None] + [interval_at(b)])
            if b - a > iv + 2 * S + EPS:
                ctx.finding('main-poll:gap-exceeds-interval-plus-two-sweeps', case,
                            f'{name}: doPoll at +{a - case["t0"]:.3f} and +{b - case["t0"]:.3f}: gap {b - a:.3f} > {iv} + 2*{S:.3f}')
                break
        else:
            ctx.ok('main-poll-bounded')
        if horizon - starts[-1] > interval_at(horizon) + 2 * S + EPS:
            ctx.finding('main-poll:starved-at-the-end', case, f'{name}: last doPoll {horizon - starts[-1]:.3f} s before the horizon')
        # (5) a shortened interval / fast poll / immediate trigger takes effect from the next wake-up
        for tc, v in mychanges:
            after = [t for t in starts if t >= tc]
            want = (0.0 if v is None else v) + 2 * S + EPS
            if any(tc <= t2 <= tc + want and (t2, v2) != (tc, v) for t2, v2 in mychanges):
                continue     # superseded by a further change before it had to show
            if tc + want < horizon and (not after or after[0] - tc > want):
                ctx.finding(f'interval-change:not-effective:{"trigger" if v is None else "interval"}', case,
                            f'{name}: change to {v} at +{tc - case["t0"]:.3f}, next doPoll at {after[0] - case["t0"] if after else None}')
                break
        else:
            ctx.ok('interval-change-effective')
        # (2) every polled parameter is refreshed within a bounded multiple of the slow interval
        # (which parameters are polled follows from the declaration - not from the list the poll thread made for itself)
        expected_polled = [('read_value', 'read_value')] + \
            [(f'read_p{j}', {'handler': 'read_handler', 'common': 'read_common'}.get(p_['flag'], f'read_p{j}'))
             for j, p_ in enumerate(ms['params']) if p_['flag'] in ('poll', 'handler', 'common')]
        for fname, via in expected_polled:
            ts = [t for t, n, f, _ in log if n == name and f == via]
            bound = 3 * ms['slowinterval'] + 2 * max(npolled, 1) * S + EPS
            gaps = [b - a for a, b in zip(ts, ts[1:])] + ([horizon - ts[-1]] if ts else [])
            if not ts:
                # (after a communication failure at start-up the first reads are skipped: the first sweep has the same bound)
                if horizon - case['t0'] > bound:
                    ctx.finding('slow-poll:never-read', case, f'{name}.{fname}')
                else:
                    ctx.label('slow-poll:horizon-shorter-than-bound')
            elif max(gaps) > bound:
                ctx.finding('slow-poll:refresh-bound-exceeded', case, f'{name}.{fname}: gap {max(gaps):.3f} > 3*{ms["slowinterval"]} + 2*{npolled}*{S:.3f}')
            else:
                ctx.ok('slow-poll-bounded')
        # (3) parameters marked as not polled are never read by the poller
        for j, p in enumerate(ms['params']):
            if p['flag'] == 'nopoll' and any(n == name and f == f'read_p{j}' for _, n, f, _ in log):
                ctx.finding('nopoll:read-by-poller', case, f'{name}.read_p{j}')
            elif p['flag'] == 'nopoll':
                ctx.ok('nopoll-respected')


def run_shard(ctx, shard):
    drive(scenario(), lambda case: check_scenario(ctx, case), shard['n'], ctx.seed * 1000 + shard['idx'])


def run_case(ctx, case):
    try:
        ok = case['mods'] and all(m['pollinterval'] >= 0.1 and m['slowinterval'] >= 0.1 for m in case['mods']) and \
            all(p['script'] in SCRIPTS and p['exc'] in EXCS and p['flag'] in ('poll', 'nopoll', 'handler', 'common', 'noread')
                for m in case['mods'] for p in m['params']) and all(m['vscript'] in SCRIPTS and m['vexc'] in EXCS for m in case['mods']) and \
            all(e['mod'] < len(case['mods']) and e['kind'] in ('interval', 'fast-on', 'fast-off', 'trigger') for e in case['events'])
    except (KeyError, TypeError):
        ok = False
    if ok:
        check_scenario(ctx, case)
