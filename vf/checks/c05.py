"""C05 - the update stream always reconstructs the node's parameter cache

sequential: generated histories on one module with an executable emission model (virtual clock)
concurrent: the same kinds of operations from 1-3 managed threads under the deterministic scheduler;
ground truth = recorder callbacks running inside the update lock.
"""
import types

from hypothesis import strategies as st

from vf import refmodel as rm
from vf import dsched
from vf.runner import drive

PROPERTY = 'C05'
LEVEL = 'exploration'
RULE = ('Hypothesis draws a module (2-4 parameters of int/double/string/enum/struct/array type, update_unchanged in {default, always, '
        'never, seconds}, omit_unchanged_within in {None, 0, 0.1, 5}) and a history of 1-40 operations from {read ok, read raising a SECoP '
        'error / another exception, read returning an invalid value, write with the driver returning the value / None / another value, '
        'assignment of an equal / different / invalid value, announceUpdate(err), the same error again, recovery with the same value, '
        'clock advance}; sequentially against an emission model, and split over 1-3 threads under generated schedules. One evaluation = '
        'one history (x schedule). non-trivial: the history has a suppression opportunity and an error<->value transition (sequential), '
        'or a context switch inside announceUpdate (concurrent); distinct by (module, history, schedule trace).')
ASSUMPTIONS = ['one globally activated fake connection on the real Dispatcher; values are compared after import with the parameter datatype',
               'concurrent part: interleavings at synchronisation-operation granularity']

N_EXAMPLES = {'quick': 1000, 'thorough': 15000}
KINDS = ['int', 'double', 'string', 'enum', 'struct', 'array', 'scaled']
VALUES = {'int': [0, 1, 1, 2, 3], 'double': [0.0, 1.5, 1.5, 2.25, 0.3, 0.1 + 0.2, 1.5000000001, 1], 'string': ['', 'a', 'a', 'bc'], 'enum': [0, 1, 1, 2, 'b'],
          'struct': [{'x': 0, 'y': 0.0}, {'x': 1, 'y': 0.5}, {'x': 1, 'y': 0.5}, {'x': 2, 'y': 0.0}], 'array': [[], [1], [1], [1, 2], (1, 2)],
          'scaled': [0.0, 0.5, 0.5, 1.2, 0.52]}     # (the last of each list is a non-canonical form of an allowed value)
INVALID = {'int': ['x', 1.5, None], 'double': ['x', None, [1]], 'string': [5, None], 'enum': [9, 'zz', None], 'struct': [{'x': 'a', 'y': 0.0}, 5, {'zz': 1}],
           'array': [5, ['x'], None], 'scaled': ['x', None, [1]]}


def shards(tier, seed):
    return [{'idx': i, 'n': N_EXAMPLES[tier], 'part': 'seq'} for i in range(8)] + [{'idx': 8 + i, 'n': N_EXAMPLES[tier], 'part': 'conc'} for i in range(8)]


def make_dt(kind):
    from frappy.datatypes import IntRange, FloatRange, StringType, EnumType, StructOf, ArrayOf, ScaledInteger
    return {'scaled': lambda: ScaledInteger(0.1, 0, 10), 'int': lambda: IntRange(0, 100), 'double': lambda: FloatRange(), 'string': lambda: StringType(), 'enum': lambda: EnumType('e', a=0, b=1, c=2),
            'struct': lambda: StructOf(x=IntRange(0, 9), y=FloatRange()), 'array': lambda: ArrayOf(IntRange(0, 9), 0, 3)}[kind]()


@st.composite
def module_spec(draw):
    params = []
    for i in range(draw(st.integers(2, 4))):
        params.append({'name': f'p{i}', 'kind': draw(st.sampled_from(KINDS)), 'uu': draw(st.sampled_from(['default', 'default', 'always', 'never', 2.0])),
                       'export': draw(st.sampled_from([True, True, True, False])),
                       'callback': draw(st.sampled_from([None, None, None, 'fails-on-error', 'fails-always']))})
    spec = {'params': params, 'omit': draw(st.sampled_from([None, 0, 0.1, 5])), 'general_omit': draw(st.sampled_from([0, 0.1, 1]))}
    if draw(st.integers(0, 3)) == 0:
        spec['nested'] = {params[1]['name']: params[0]['name']}      # read_p1 calls read_p0 first
    return spec


@st.composite
def ops_list(draw, params, maxlen=40):
    ops = []
    for _ in range(draw(st.integers(1, maxlen))):
        p = draw(st.sampled_from(params))
        k = draw(st.sampled_from(['readok', 'readok', 'readerr', 'readexc', 'readbad', 'write', 'write', 'assign', 'assign', 'assignbad', 'annerr', 'tick']))
        op = {'op': k, 'p': p['name']}
        if k in ('readok', 'write', 'assign'):
            op['v'] = draw(st.sampled_from(VALUES[p['kind']]))
        if k == 'write':
            op['ret'] = draw(st.sampled_from(['same', 'none', 'other']))
            op['other'] = draw(st.sampled_from(VALUES[p['kind']]))
        if k in ('readbad', 'assignbad'):
            op['v'] = draw(st.sampled_from(INVALID[p['kind']]))
        if k in ('readerr', 'annerr'):
            op['text'] = draw(st.sampled_from(['a', 'a', 'b']))
        if k.startswith('read') and draw(st.integers(0, 2)) == 0:
            op['poll'] = True      # the read function is called by the poller (callPollFunc), which handles and logs the error
        if k == 'tick':
            op['dt'] = draw(st.sampled_from([0.01, 0.2, 3.0, 10.0]))
        ops.append(op)
    return ops


@st.composite
def seq_case(draw):
    spec = draw(module_spec())
    return {'kind': 'seq', 'spec': spec, 'ops': draw(ops_list(spec['params']))}


@st.composite
def conc_case(draw):
    spec = draw(module_spec())
    threads = [draw(ops_list(spec['params'], 8)) for _ in range(draw(st.integers(1, 3)))]
    return {'kind': 'conc', 'spec': spec, 'threads': threads, 'schedule': draw(st.lists(st.integers(0, 3), min_size=10, max_size=150))}


class Conn:
    def __init__(self, yielding=False):
        self.log = []
        self.yielding = yielding

    def send_reply(self, msg):
        if self.yielding:
            s = dsched.sched()
            if s:
                s.yield_point('conn.send')
        self.log.append(msg)

    def __hash__(self):
        return 1


def build(spec, clock, script, yielding=False):
    from frappy.core import Module, Parameter
    from frappy.lib import generalConfig
    from vf.nodekit import Kit
    attrs = {}
    for p in spec['params']:
        kw = {'default': VALUES[p['kind']][0], 'readonly': False, 'update_unchanged': p['uu']}
        if not p['export']:
            kw['export'] = False
        attrs[p['name']] = Parameter(p['name'], make_dt(p['kind']), **kw)

        script.setdefault(('r', p['name']), VALUES[p['kind']][0])

        def rf(self, pn=p['name'], inner=(spec.get('nested') or {}).get(p['name'])):
            if inner:
                getattr(self, 'read_' + inner)()      # a read function using another parameter's read function (raw value -> value)
            r = script[('r', pn)]
            if isinstance(r, Exception):
                raise type(r)(*r.args)     # a fresh exception object per call, as a driver would raise
            return r

        def wf(self, value, pn=p['name']):
            r = script[('w', pn)]
            return value if r == '$same' else r
        attrs['read_' + p['name']], attrs['write_' + p['name']] = rf, wf
    cls = type('U', (Module,), attrs)
    cfg = {'cls': cls, 'description': 'update stream module'}
    if spec['omit'] is not None:
        cfg['omit_unchanged_within'] = spec['omit']
    kit = Kit({'u': cfg}, omit_unchanged_within=spec['general_omit'])
    assert not kit.errors, kit.errors
    conn = Conn(yielding)
    kit.dispatcher.handle_request(conn, ('activate', None, None))
    mobj = kit.modules['u']
    import threading as _th
    from frappy.modulebase import PollInfo
    mobj.pollInfo = PollInfo(1, _th.Event())
    for p in spec['params']:
        # callbacks of other modules (addCallback / registerCallbacks) which fail: on errors only (an update_<p>(value) method
        # without error argument, the documented "nothing happens" case), or always
        how = p.get('callback')
        if how == 'fails-on-error':
            mobj.addCallback(p['name'], lambda value: None)
        elif how == 'fails-always':
            mobj.addCallback(p['name'], lambda *args: 1 / 0)
    return kit, mobj, conn


def errkey(e):
    from frappy.errors import secop_error
    e = secop_error(e)
    return ('err', type(e).__name__, tuple(str(a) for a in e.args))


def do_op(mobj, op, script, dts, clock=None):
    """executes one operation; -> what the emission model has to know: ('value', canon) | ('error', key) | None"""
    from frappy.errors import HardwareError, CommunicationFailedError
    k, pn = op['op'], op['p']
    dt = dts[pn]
    res = None

    def call_read():
        if op.get('poll'):
            mobj.callPollFunc(getattr(mobj, 'read_' + pn))
        else:
            getattr(mobj, 'read_' + pn)()
    try:
        if k == 'tick':
            if clock is not None:
                clock[0] += op['dt']
            else:
                dsched.v_sleep(op['dt'])
            return None
        if k == 'readok':
            script[('r', pn)] = op['v']
            res = ('value', rm.canon(dt(op['v'])))
            call_read()
        elif k == 'readerr':
            e = HardwareError(op['text'])
            script[('r', pn)] = e
            res = ('error', errkey(e))
            call_read()
        elif k == 'readexc':
            e = ValueError('x')
            script[('r', pn)] = e
            res = ('error', errkey(e))
            call_read()
        elif k == 'readbad':
            script[('r', pn)] = op['v']
            try:
                dt(op['v'])
            except Exception as e:   # noqa
                res = ('error', errkey(e))
            call_read()
        elif k == 'write':
            ret = {'same': '$same', 'none': None, 'other': op['other']}[op['ret']]
            script[('w', pn)] = ret
            final = op['v'] if op['ret'] != 'other' else op['other']
            res = ('value', rm.canon(dt.validate(final)))
            getattr(mobj, 'write_' + pn)(op['v'])
        elif k == 'assign':
            res = ('value', rm.canon(dt(op['v'])))
            setattr(mobj, pn, op['v'])
        elif k == 'assignbad':
            try:
                dt(op['v'])
            except Exception as e:   # noqa
                res = ('error', errkey(e))
            setattr(mobj, pn, op['v'])
        elif k == 'annerr':
            e = CommunicationFailedError(op['text'])
            res = ('error', errkey(e))
            mobj.announceUpdate(pn, err=e)
    except Exception:   # noqa - read functions re-raise their errors to the caller
        pass
    return res


def msg_state(msg, dts):
    """update message -> comparable state"""
    pn = msg[1].split(':')[1].lstrip('_')
    if msg[0] == 'error_update':
        return pn, ('error', msg[2][0], msg[2][1])
    dt = dts[pn]
    return pn, ('value', rm.canon(dt.validate(dt.import_value(msg[2][0]))))


def cache_state(pobj):
    from frappy.errors import secop_error
    if pobj.readerror:
        return ('error', pobj.readerror.name, str(pobj.readerror))
    return ('value', rm.canon(pobj.datatype.validate(pobj.value)) if True else None)


def check_seq(ctx, case):
    import frappy.modulebase as mb
    ctx.ev()
    spec = case['spec']
    clock = [1_000_000.0]
    real = mb.time
    mb.time = types.SimpleNamespace(time=lambda: clock[0])
    try:
        script = {}
        try:
            kit, mobj, conn = build(spec, clock, script)
        except AssertionError:
            return
        dts = {p['name']: mobj.parameters[p['name']].datatype for p in spec['params']}
        conn.log.clear()
        # model state from the actual initial state
        model = {}
        for p in spec['params']:
            pobj = mobj.parameters[p['name']]
            # the interval in effect follows from the declaration and the configuration, not from what the node made of it:
            # the parameter's own update_unchanged, else the module's omit_unchanged_within (0 included), else the general default
            uu = p.get('uu', 'default')
            want = 0 if uu == 'always' else 999999999 if uu == 'never' else float(uu) if isinstance(uu, (int, float)) else \
                (spec['omit'] if spec.get('omit') is not None else spec.get('general_omit', 0))
            if pobj.omit_unchanged_within != want:
                ctx.finding('omit-interval-not-as-configured', case, f'{p["name"]} (update_unchanged {uu!r}, module {spec.get("omit")!r}, general '
                            f'{spec.get("general_omit")!r}): {pobj.omit_unchanged_within!r} instead of {want!r}')
                return
            model[p['name']] = {'v': rm.canon(pobj.value), 'e': errkey(pobj.readerror) if pobj.readerror else None, 'ts': pobj.timestamp or 0,
                                'interval': want, 'export': p['export']}
        expected = []
        initial = {pn: ('value', m['v']) for pn, m in model.items() if m['e'] is None}
        suppress = transition = False
        for op in case['ops']:
            res = do_op(mobj, op, script, dts, clock)
            if res is None:
                continue
            st_ = model[op['p']]
            if res[0] == 'value':
                changed = st_['v'] != res[1] or st_['e'] is not None
                if st_['e'] is not None:
                    transition = True
                if not changed and clock[0] < st_['ts'] + st_['interval']:
                    st_['v'] = res[1]
                    suppress = True
                    continue
                st_.update(v=res[1], e=None, ts=clock[0])
                if st_['export']:
                    expected.append((op['p'], ('value', res[1])))
            else:
                if st_['e'] == res[1]:
                    suppress = True
                    continue
                if st_['e'] is None:
                    transition = True
                st_.update(e=res[1], ts=clock[0])
                if st_['export']:
                    expected.append((op['p'], ('error',) + res[1][1:]))
        got = []
        for msg in conn.log:
            if msg[0] in ('update', 'error_update'):
                pn, state = msg_state(msg, dts)
                got.append((pn, state if state[0] == 'value' else ('error', state[1], state[2])))
        exp = [(pn, s if s[0] == 'value' else ('error', name_of(s[1]), text_of(s))) for pn, s in expected]
        if suppress and transition:
            ctx.nt(('seq', repr(case)))
        # a repetition of the state just announced is superfluous but harmless (the statement does not forbid it)
        filtered, current, nrepeat = [], dict(initial), 0
        j = 0
        for g in got:
            if j < len(exp) and g[0] == exp[j][0] and same_state(g[1], exp[j][1]):
                filtered.append(g)
                current[g[0]] = g[1]
                j += 1
            elif g[0] in current and same_state(g[1], current[g[0]]):
                nrepeat += 1
            else:
                filtered.append(g)
                j += 1
        if nrepeat:
            ctx.label('seq:repeated-identical-update')
        got = filtered
        if spec.get('nested'):
            # two parameters change in one operation: the emission model (one parameter per operation) does not apply,
            # the replay of the stream must still reproduce the cache
            ctx.label('seq:nested-read')
            got = [(pn, state if state[0] == 'value' else ('error', state[1], state[2])) for pn, state in
                   (msg_state(msg, dts) for msg in conn.log if msg[0] in ('update', 'error_update'))]
        elif [g[0] for g in got] != [e[0] for e in exp] or any(not same_state(g[1], e[1]) for g, e in zip(got, exp)):
            i = next((j for j, (g, e) in enumerate(zip(got, exp)) if g[0] != e[0] or not same_state(g[1], e[1])), min(len(got), len(exp)))
            what = 'missing' if len(got) < len(exp) and i >= len(got) else 'superfluous' if len(exp) < len(got) and i >= len(exp) else 'differs'
            kind = (exp[i][1][0] if i < len(exp) else got[i][1][0])
            ctx.finding(f'seq:update-{what}:{kind}', case, f'message {i}: got {got[i] if i < len(got) else None!r}, model {exp[i] if i < len(exp) else None!r}')
            return
        ctx.ok('emission-model')
        # (1) replaying the stream reproduces the cache
        last = {}
        for pn, s in got:
            last[pn] = s
        for p in spec['params']:
            if not p['export']:
                if p['name'] in last:
                    ctx.finding('seq:hidden-parameter-in-stream', case, p['name'])
                continue
            pobj = mobj.parameters[p['name']]
            if p['name'] in last:
                cs = cache_state(pobj)
                if not same_state(last[p['name']], cs if cs[0] == 'value' else ('error', cs[1], cs[2])):
                    ctx.finding(f'seq:replay-differs-from-cache:{cs[0]}', case, f'{p["name"]}: last message {last[p["name"]]!r}, cache {cs!r}')
                    return
        ctx.ok('replay-equals-cache')
        # the cache holds converted values (what the datatype returns), never the raw argument of a write or assignment
        for p in spec['params']:
            pobj = mobj.parameters[p['name']]
            if pobj.readerror is None:
                conv = pobj.datatype(pobj.value)
                if type(conv) is not type(pobj.value) or conv != pobj.value:
                    ctx.finding(f'seq:cache-holds-unconverted-value:{p["kind"]}', case, f'{p["name"]}: cache {pobj.value!r}, converted {conv!r}')
                    return
        ctx.ok('cache-converted')
        ctx.sample({'spec': spec, 'ops': case['ops'][:10], 'messages': [(pn, s[0]) for pn, s in got][:10]}, every=197)
    finally:
        mb.time = real


def name_of(clsname):
    import frappy.errors as fe
    return getattr(fe, clsname).name


def text_of(s):
    import frappy.errors as fe
    return str(getattr(fe, s[1])(*s[2]))


def same_state(a, b):
    if a[0] != b[0]:
        return False
    if a[0] == 'value':
        return a[1] == b[1] or repr(a[1]) == repr(b[1])
    return a[1] == b[1] and a[2] == b[2]


def check_conc(ctx, case):
    ctx.ev()
    spec = case['spec']
    s = dsched.Sched(case['schedule'], horizon=3600)
    out = {'truth': [], 'error': None}
    inside = {'flag': False}

    def main():
        script = {}
        try:
            kit, mobj, conn = build(spec, None, script, yielding=True)
        except AssertionError:
            out['skip'] = True
            return
        out['mobj'], out['conn'] = mobj, conn
        dts = {p['name']: mobj.parameters[p['name']].datatype for p in spec['params']}
        out['dts'] = dts
        conn.log.clear()
        for p in spec['params']:
            def cb(*args, pn=p['name']):
                st_ = ('value', rm.canon(args[0])) if len(args) == 1 else ('error', args[1].name, str(args[1]))
                out['truth'].append((pn, st_))
            mobj.addCallback(p['name'], cb)
        # each thread has its own read/write script (as each thread would talk to its own piece of hardware state)
        threads = []
        for ops in case['threads']:
            def worker(ops=ops):
                for op in ops:
                    do_op(mobj, op, script, dts)
            threads.append(s.spawn(worker))
        for t in threads:
            t.join()

    with dsched.Patcher():
        try:
            s.run(main)
        except (dsched.Deadlock, dsched.StepLimit) as e:
            out['error'] = e
    if out.get('skip'):
        return
    if out['error'] is not None:
        ctx.finding(f'conc:{type(out["error"]).__name__}', case, repr(out['error'])[:300])
        return
    mobj, conn, dts = out['mobj'], out['conn'], out['dts']
    got = []
    for msg in conn.log:
        if msg[0] in ('update', 'error_update'):
            got.append(msg_state(msg, dts))
    exported = {p['name'] for p in spec['params'] if p['export']}
    truth = [(pn, st_ if st_[0] == 'error' else ('value', rm.canon(dts[pn].validate(unc(st_[1]))))) for pn, st_ in out['truth'] if pn in exported]
    # per parameter: the messages are exactly the cache states in the order the cache changed
    if any(sw[1].startswith('conn.send') for sw in s.trace) and s.switches > len(case['threads']) + 2:
        ctx.nt(s.trace_hash())
    for pn in exported:
        g = [st_ for p, st_ in got if p == pn]
        t = [st_ for p, st_ in truth if p == pn]
        if len(g) != len(t) or any(not same_state(a, b) for a, b in zip(g, t)):
            what = 'order' if sorted(map(repr, g)) == sorted(map(repr, t)) else 'content'
            ctx.finding(f'conc:stream-differs-from-cache-history:{what}', case, f'{pn}: delivered {g[:8]!r}, cache history {t[:8]!r}')
            return
        if g:
            cs = cache_state(mobj.parameters[pn])
            if not same_state(g[-1], cs):
                ctx.finding('conc:last-message-differs-from-cache', case, f'{pn}: last message {g[-1]!r}, cache {cs!r}')
                return
    ctx.ok('stream-equals-cache-history')
    ctx.label(f'threads:{len(case["threads"])}', f'switches:{min(s.switches // 10 * 10, 100)}')
    ctx.sample({'spec': spec, 'threads': [t[:5] for t in case['threads']], 'switches': s.switches}, every=197)


def unc(v):
    """canonical enum tuple -> code"""
    if isinstance(v, tuple) and v and v[0] == 'enum':
        return v[1]
    if isinstance(v, list):
        return [unc(e) for e in v]
    if isinstance(v, dict):
        return {k: unc(e) for k, e in v.items()}
    return v


def run_shard(ctx, shard):
    if shard['part'] == 'seq':
        drive(seq_case(), lambda case: check_seq(ctx, case), shard['n'], ctx.seed * 1000 + shard['idx'])
    else:
        drive(conc_case(), lambda case: check_conc(ctx, case), shard['n'], ctx.seed * 1000 + shard['idx'])


def valid(case):
    try:
        spec = case['spec']
        names = {p['name'] for p in spec['params']}
        kinds = {p['name']: p['kind'] for p in spec['params']}
        if not names or any(p['kind'] not in KINDS or p['uu'] not in ('default', 'always', 'never', 2.0) for p in spec['params']):
            return False
        lists = [case['ops']] if case['kind'] == 'seq' else case['threads']
        for ops in lists:
            for op in ops:
                if op['p'] not in names or op['op'] not in ('readok', 'readerr', 'readexc', 'readbad', 'write', 'assign', 'assignbad', 'annerr', 'tick'):
                    return False
                if op['op'] in ('readok', 'write', 'assign') and op['v'] not in VALUES[kinds[op['p']]]:
                    return False
                if op['op'] == 'write' and (op['ret'] not in ('same', 'none', 'other') or op['other'] not in VALUES[kinds[op['p']]]):
                    return False
                if op['op'] in ('readbad', 'assignbad') and op['v'] not in INVALID[kinds[op['p']]]:
                    return False
                if op['op'] == 'tick' and not isinstance(op['dt'], (int, float)):
                    return False
                if op['op'] in ('readerr', 'annerr') and not isinstance(op.get('text'), str):
                    return False
        return True
    except (KeyError, TypeError):
        return False


def run_case(ctx, case):
    if not valid(case):
        return
    if case['kind'] == 'seq':
        check_seq(ctx, case)
    else:
        check_conc(ctx, case)
