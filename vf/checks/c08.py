"""C08 - activation and deactivation boundaries are exact under any interleaving

real Dispatcher + modules + TCPRequestHandler (one managed thread per connection, scripted fake socket)
and update-producing driver threads under the deterministic scheduler (vf/dsched.py): the schedule is a
generated list of integers; every synchronisation operation and every socket operation is a yield point.
"""
import json

from hypothesis import strategies as st

from vf import dsched
from vf.runner import drive

PROPERTY = 'C08'
LEVEL = 'exploration'
RULE = ('Hypothesis draws 1-3 connections, each with a script of 1-6 requests from {activate / deactivate with global, module and '
        'parameter scope, *IDN?, ping} ending in a disconnect, 1-2 driver threads producing uniquely numbered values by attribute '
        'assignment and read functions on 2 modules x 2 exported parameters (+1 hidden), and a schedule (list of integers consumed at '
        'every point where more than one thread can run; bounded-preemption schedules for the thorough tier are enumerated for a scenario '
        'catalogue). One evaluation = one scheduled run. non-trivial: a driver update is stamped between the first and the last message '
        'of an activate or deactivate exchange; distinct by trace hash.')
ASSUMPTIONS = ['interleavings at synchronisation-operation granularity (locks, events, socket send/recv), not inside single statements',
               'ground truth of the cache is recorded by a callback running inside the update lock of the module']

N_EXAMPLES = {'quick': 600, 'thorough': 10000}
PARAMS = {'m0': ['a', 'b'], 'm1': ['a', 'b']}
SCOPES = [None, 'm0', 'm1', 'm0:_a', 'm0:_b', 'm1:_a', 'm0x', 'm0x:_a']     # m0 is a proper prefix of the module name m0x


def shards(tier, seed):
    res = [{'idx': i, 'n': N_EXAMPLES[tier], 'part': 'random'} for i in range(14)]
    res += [{'idx': 14 + i, 'part': 'systematic', 'of': 2} for i in range(2)]
    return res


class DSock:
    """fake socket whose operations are yield points"""

    def __init__(self, name):
        self.name = name
        self.inbox = []
        self.sent = []      # (step, bytes)
        self.dropped = []   # send attempts after the connection was closed
        self.closed = False
        self.peer_closed = False

    def settimeout(self, t):
        pass

    def push(self, data):
        self.inbox.append(data)
        s = dsched.sched()
        if s:
            s.wake(lambda w: w == ('data', self))

    def recv(self, n):
        import socket
        s = dsched.sched()
        s.yield_point('sock.recv')
        if not self.inbox:
            if self.peer_closed:
                return b''
            if not s.block(('data', self), 1.0):
                raise socket.timeout()
            if not self.inbox:
                if self.peer_closed:
                    return b''
                raise socket.timeout()
        return self.inbox.pop(0)

    def sendall(self, data):
        # sendall is not atomic: the bytes go out in portions (here two, cut inside the first line), other threads run in between
        s = dsched.sched()
        s.yield_point('sock.send')
        if self.closed:
            self.dropped.append((s.steps, data))
            raise BrokenPipeError('closed')
        cut = min(len(data) // 2, max(1, data.find(b'\n') // 2)) if len(data) > 8 else 0
        if cut:
            self.sent.append((s.steps, data[:cut]))
            s.yield_point('sock.send-rest')
            if self.closed:
                raise BrokenPipeError('closed')
        self.sent.append((s.steps, data[cut:]))

    def shutdown(self, how):
        pass

    def close(self):
        self.closed = True

    def close_peer(self):
        self.peer_closed = True
        s = dsched.sched()
        if s:
            s.wake(lambda w: w == ('data', self))


DELAYS = [0, 0, 0, 0.5, 2.0]
N_HELP_LINES = 11     # lines of frappy.protocol.messages.HelpMessage (checked in run_scenario)


@st.composite
def scenario(draw):
    # most of the traffic is about one focus module / parameter, so that scopes of several connections overlap
    fmod = draw(st.sampled_from(['m0', 'm1']))
    fpar = draw(st.sampled_from(['a', 'b']))
    scopes = [None, fmod, f'{fmod}:_{fpar}'] * 3 + SCOPES
    if draw(st.integers(0, 5)) == 0:
        scopes = [None]      # nobody ever uses module or parameter scope on this node
    prefix_twin = draw(st.integers(0, 3)) == 0     # part of the traffic goes to the module whose name starts with the other's name
    if prefix_twin:
        scopes += ['m0', 'm0x', f'm0x:_{fpar}', 'm0'] * 2
    conns = []
    for _ in range(draw(st.integers(1, 3))):
        script = []
        for _ in range(draw(st.integers(1, 6))):
            kind = draw(st.sampled_from(['activate', 'activate', 'activate', 'deactivate', 'deactivate', 'deactivate', 'idn', 'ping', 'ping', 'help', 'describe']))
            if kind in ('activate', 'deactivate'):
                script.append([kind, draw(st.sampled_from(scopes)), draw(st.sampled_from(DELAYS))])
            else:
                script.append([kind, None, draw(st.sampled_from(DELAYS))])
        conns.append(script)
    drivers = []
    for _ in range(draw(st.integers(1, 2))):
        ops = []
        for _ in range(draw(st.integers(1, 8))):
            mod, par = (fmod, fpar) if draw(st.integers(0, 3)) else (draw(st.sampled_from(['m0', 'm1'])), draw(st.sampled_from(['a', 'b', 'hid'])))
            if prefix_twin and draw(st.booleans()):
                mod = 'm0x'
            ops.append([draw(st.sampled_from(['assign', 'assign', 'read', 'error'])), mod, par, draw(st.sampled_from(DELAYS))])
        drivers.append(ops)
    return {'kind': 'scenario', 'conns': conns, 'drivers': drivers, 'schedule': draw(st.lists(st.integers(0, 3), min_size=20, max_size=200))}


def in_scope(subs, mod, wire):
    return None in subs or mod in subs or f'{mod}:{wire}' in subs


def run_scenario(case, preempt=None):
    """-> dict(logs, truth, sched, error)"""
    import frappy.protocol.dispatcher as disp
    from frappy.core import Readable, Parameter, IntRange
    from frappy.protocol.interface.tcp import TCPRequestHandler
    from frappy.errors import HardwareError
    from vf.nodekit import Kit, FakeTcpServer, quiet_handler
    quiet_handler()
    from frappy.protocol.messages import HelpMessage
    assert len(HelpMessage.splitlines()) == N_HELP_LINES
    s = dsched.Sched(case.get('schedule', ()), preempt=preempt, horizon=3600)
    out = {'sched': s, 'truth': [], 'logs': {}, 'error': None, 'final': {}}
    counter = [0]

    def nextval():
        counter[0] += 1
        return counter[0]

    def main():
        readvals = {}

        def mk(modname):
            def read_a(self):
                return readvals.pop((dsched.d_current_thread().name, modname, 'a'))

            def read_b(self):
                v = readvals.pop((dsched.d_current_thread().name, modname, 'b'))
                if v < 0:
                    raise HardwareError(f'failure {-v}')
                return v
            return type('C' + modname, (Readable,), {
                'a': Parameter('a', IntRange(), default=0), 'b': Parameter('b', IntRange(), default=0),
                'hid': Parameter('hidden', IntRange(), default=0, export=False), 'read_a': read_a, 'read_b': read_b,
                'k': Parameter('a constant (part of every snapshot like any parameter)', IntRange(), constant=7)})
        kit = Kit({'m0': {'cls': mk('m0'), 'description': 'm0'}, 'm1': {'cls': mk('m1'), 'description': 'm1'},
                   'm0x': {'cls': mk('m0x'), 'description': 'm0x'}},
                  # (a description making the reply to 'describe' a line of more than 8 kB, if asked for)
                  description='generated node' + ' with a long description' * (400 if case.get('long_description') else 0))
        for mname, mobj in kit.modules.items():
            for pname in ('a', 'b', 'k', 'hid', 'value', 'status', 'pollinterval'):
                def cb(*args, mname=mname, pname=pname):
                    val = args[0] if len(args) == 1 else ('error', type(args[1]).__name__, str(args[1]))
                    out['truth'].append((dsched.sched().steps, mname, pname, val))
                mobj.addCallback(pname, cb)
        socks = []
        threads = []
        for ci, script in enumerate(case['conns']):
            sock = DSock(f'c{ci}')
            socks.append(sock)
            def feed(sock=sock, script=script):
                # the peer sends its requests over (virtual) time and disconnects at the end
                for item in script:
                    kind, scope = item[0], item[1]
                    if len(item) > 2 and item[2]:
                        dsched.v_sleep(item[2])
                    line = {'activate': 'activate', 'deactivate': 'deactivate', 'idn': '*IDN?', 'ping': 'ping x', 'help': 'help', 'describe': 'describe'}[kind]
                    if scope and kind in ('activate', 'deactivate'):
                        line += ' ' + scope
                    sock.push(line.encode() + b'\n')
                dsched.v_sleep(3.0)
                sock.close_peer()

            def serve(sock=sock):
                TCPRequestHandler(sock, ('127.0.0.1', 1), FakeTcpServer(kit))
            threads.append(s.spawn(feed, _name=f'T:peer{ci}'))
            threads.append(s.spawn(serve, _name=f'T:conn{ci}'))
        for di, ops in enumerate(case['drivers']):
            def driver(ops=ops):
                for item in ops:
                    op, mod, par = item[:3]
                    if len(item) > 3 and item[3]:
                        dsched.v_sleep(item[3])
                    mobj = kit.modules[mod]
                    v = nextval()
                    if op == 'assign' or par == 'hid':
                        try:
                            setattr(mobj, par, v)
                        except Exception as e:   # noqa - an assignment in the driver must not fail because of the connections
                            out.setdefault('driver_errors', []).append(f'{mod}.{par} = {v}: {e!r}')
                    elif op == 'read':
                        readvals[(dsched.d_current_thread().name, mod, par)] = v      # (what this driver thread's hardware returns)
                        try:
                            getattr(mobj, 'read_' + par)()
                        except Exception as e:   # noqa
                            out.setdefault('driver_errors', []).append(f'{mod}.read_{par}(): {e!r}')
                    else:
                        if par == 'b':
                            readvals[(dsched.d_current_thread().name, mod, 'b')] = -v
                            try:
                                mobj.read_b()
                            except HardwareError:
                                pass
                        else:
                            mobj.announceUpdate(par, err=HardwareError(f'failure {v}'))
            threads.append(s.spawn(driver, _name=f'T:drv{di}'))
        for t in threads:
            t.join()
        for mname, mobj in kit.modules.items():
            for pname, pobj in mobj.parameters.items():
                out['final'][(mname, pname)] = ('error', type(pobj.readerror).__name__, str(pobj.readerror)) if pobj.readerror else pobj.value
        out['logs'] = {sock.name: list(sock.sent) for sock in socks}
        out['dropped'] = {sock.name: list(sock.dropped) for sock in socks}

    with dsched.Patcher():
        real_currenttime = disp.currenttime
        disp.currenttime = dsched.v_time
        try:
            s.run(main)
        except (dsched.Deadlock, dsched.StepLimit) as e:
            out['error'] = e
        finally:
            disp.currenttime = real_currenttime
    return out


KNOWN_ACTIONS = {'active', 'inactive', 'pong', 'update', 'error_update', '_', 'error_activate', 'error_deactivate', 'error_ping', 'error_help',
                 'describing', 'reply', 'changed', 'done', 'helping'}


def parse(sent):
    """[(step, bytes)] portions in the order they reached the peer -> [(step, action, spec, data)] one per line of the byte stream;
    a line which is not a well formed message (another message landed inside it) is marked '?split-line'"""
    res = []
    buf = b''
    for step, data in sent:
        buf += data
        while b'\n' in buf:
            line, buf = buf.split(b'\n', 1)
            try:
                parts = line.decode('utf-8').split(' ', 2) + ['', '']
                if parts[0] not in KNOWN_ACTIONS and not parts[0].startswith('ISSE'):
                    raise ValueError('action')
                res.append((step, parts[0], parts[1] or None, json.loads(parts[2]) if parts[2] and not parts[0].startswith('ISSE') else None))
            except ValueError:
                res.append((step, '?split-line', None, line))
    if buf:
        res.append((sent[-1][0], '?split-line', None, buf))
    return res


def wire(pname):
    return pname if pname in ('value', 'status', 'pollinterval') else '_' + pname


def check(ctx, case, preempt=None):
    ctx.ev()
    out = run_scenario(case, preempt)
    s = out['sched']
    sub = dict(case)
    if preempt:
        sub['preempt'] = {str(k): v for k, v in preempt.items()}
    if out['error'] is not None:
        ctx.finding(f'run:{type(out["error"]).__name__}', sub, repr(out['error'])[:400])
        return
    if out.get('driver_errors'):
        ctx.finding('driver-update-raises', sub, repr(out['driver_errors'])[:300])
        return
    truth = out['truth']       # (step, mod, pname, value)
    exported = {(m, p) for m in ('m0', 'm1', 'm0x') for p in ('a', 'b', 'k', 'value', 'status', 'pollinterval')}
    racing = False
    for ci, script in enumerate(case['conns']):
        msgs = parse(out['logs'][f'c{ci}'])
        subs = set()
        ri = 0                 # index into script: which request the next reply belongs to
        seen = {}              # (mod, wire) -> index of last truth entry delivered
        since = {}             # (mod, pname) -> step from which every change must be delivered (subscription start)
        ended = {}             # (mod, pname) -> (step, why) after which nothing may be delivered
        last = {}
        pending_updates = []
        suspects = []
        exch_start = None
        for step, action, spec, data in msgs:
            if action == '?split-line':
                ctx.finding('line-split-by-other-message', sub, repr(data)[:200])
                return
            if action in ('update', 'error_update'):
                mod, w = spec.split(':')
                pname = w.lstrip('_') if w.startswith('_') else w
                key = (mod, pname)
                if key not in exported:
                    ctx.finding('hidden-parameter-delivered', sub, f'conn {ci}: {spec}')
                    return
                val = data[0] if action == 'update' else ('error', None, data[1])
                pending_updates.append((step, key, val))
                # (5) nothing after the end of the subscription - unless it is the snapshot of the next activate (judged at its reply)
                if key in ended and not in_scope(subs, mod, w):
                    # an update already being broadcast when the subscription ended is the known race; a change made
                    # AFTER the reply must not be delivered at all (the connection would still be subscribed)
                    made = [t[0] for t in truth if (t[1], t[2]) == key and same(t[3], val)]
                    why = ended[key][1] if not made or min(made) <= ended[key][0] else f'{ended[key][1]}:change-made-later'
                    suspects.append((step, key, f'conn {ci}: {action} {spec} {data[0]!r} at step {step} (cache changed at step {made[:1]}), but '
                                     f'"{ended[key][1]}" was replied at step {ended[key][0]}', why))
                # (2) cache order: values are unique and increasing per parameter in the ground truth
                states = [(t[0], t[3]) for t in truth if (t[1], t[2]) == key]
                idx = None
                for j, (tstep, tval) in enumerate(states):
                    if same(tval, val):
                        idx = j
                if idx is None:
                    initial = val in (0, 0.0) or action == 'error_update' or key[1] in ('value', 'status', 'pollinterval') or (key[1] == 'k' and val == 7)
                    if not initial:
                        ctx.finding('update-never-held-by-cache', sub, f'conn {ci}: {spec} {val!r}; cache states {states!r}')
                        return
                    idx = -1
                if key in seen and idx < seen[key]:
                    ctx.finding('stale-update-after-newer-one', sub,
                                f'conn {ci}: {spec} delivered {val!r} (cache state #{idx}) after state #{seen[key]}; messages {[(m[1], m[2], (m[3][0] if isinstance(m[3], list) and m[3] else None)) for m in msgs][:12]!r}')
                    return
                seen[key] = idx
                last[key] = val
                continue
            # a reply: belongs to script[ri]
            if ri >= len(script):
                ctx.finding('superfluous-reply', sub, f'conn {ci}: {action} {spec}')
                return
            kind, scope = script[ri][0], script[ri][1]
            if kind == 'help' and action == '_':
                continue      # the help text: several lines, closed by the reply 'helping'
            ri += 1
            inflight = {(sstep, skey) for sstep, skey, _, _ in suspects}     # updates on their way when the previous subscription ended
            for sstep, skey, text, why in suspects:
                if not (kind == 'activate' and action == 'active' and in_scope({scope}, skey[0], wire(skey[1]))):
                    ctx.finding(f'update-after-{why}', sub, text)
                    return
            suspects = []
            if any(exch_start is not None and exch_start <= t[0] <= step for t in truth):
                racing = True
            if kind == 'activate' and action == 'active':
                newscope = [k for k in exported if in_scope({scope}, k[0], wire(k[1]))]
                # (1) one current update for every exported parameter in scope before the reply
                got = {k for _, k, _ in pending_updates}
                missing = [k for k in newscope if k not in got]
                if missing:
                    ctx.finding('activate-snapshot-incomplete', sub, f'conn {ci}: activate {scope}: no update for {sorted(missing)!r} before "active"')
                    return
                subs.add(scope)
                for k in newscope:
                    # from the snapshot message of this parameter on every change has to arrive (not only from the reply on)
                    # (a late update of the previous subscription is no snapshot message of this one)
                    snap = [s_ for s_, kk, _ in pending_updates if kk == k and (s_, kk) not in inflight]
                    since.setdefault(k, min(snap) if snap else step)
                    ended.pop(k, None)
            elif kind == 'deactivate' and action == 'inactive':
                before = {k for k in exported if in_scope(subs, k[0], wire(k[1]))}
                subs.discard(scope)
                if scope and ':' not in scope:
                    subs -= {x for x in subs if x and x.startswith(scope + ':')}
                for k in before:
                    if not in_scope(subs, k[0], wire(k[1])):
                        ended[k] = (step, 'inactive')
                        since.pop(k, None)
            elif kind == 'idn' and action.startswith('ISSE'):
                for k in exported:
                    if in_scope(subs, k[0], wire(k[1])):
                        ended[k] = (step, 'ident-reply')
                subs.clear()
                since.clear()
            elif action.startswith('error_') or kind == 'ping' or (kind == 'help' and action == 'helping') or \
                    (kind == 'describe' and action == 'describing'):
                pass
            else:
                ctx.finding('unexpected-reply', sub, f'conn {ci}: request {kind} {scope} -> {action} {spec}')
                return
            pending_updates = []
            exch_start = step
        if suspects:
            ctx.finding(f'update-after-{suspects[0][3]}', sub, suspects[0][2])
            return
        if ri != len(script):
            ctx.finding('missing-reply', sub, f'conn {ci}: {ri} replies for {len(script)} requests')
            return
        # (3)+(4): every change after the subscription start was delivered; at the end (the connection closed while still
        # subscribed) the last delivered state is the last state the cache had before the handler ended
        end_step = max([m[0] for m in msgs], default=0)
        for k, start in since.items():
            states = [(t[0], t[3]) for t in truth if (t[1], t[2]) == k and start < t[0]]
            delivered = [v for st_, kk, v in [(m[0], (m[2].split(':')[0], m[2].split(':')[1].lstrip('_')), (m[3][0] if m[1] == 'update' else ('error', None, m[3][1])))
                                            for m in msgs if m[1] in ('update', 'error_update')] if kk == k]
            lost = [(m[3][0] if m[1] == 'update' else ('error', None, m[3][1])) for m in parse(out['dropped'][f'c{ci}']) if m[1] in ('update', 'error_update')]
            for tstep, tval in states:
                if any(same(tval, v) for v in lost):
                    continue      # in flight when the peer disconnected
                if tstep < end_step - 1 and not any(same(tval, v) for v in delivered):
                    # changes racing with the disconnect at the very end may be lost legitimately
                    later_delivered = any(m[0] > tstep for m in msgs)
                    if later_delivered:
                        ctx.finding('change-not-delivered-while-subscribed', sub, f'conn {ci}: {k} = {tval!r} (step {tstep}) never delivered; subscription since step {start}')
                        return
        ctx.ok('connection-consistent')
    if racing:
        ctx.nt(s.trace_hash())
    ctx.label(f'switches:{min(s.switches // 10 * 10, 100)}', f'conns:{len(case["conns"])}')
    ctx.sample({'conns': case['conns'], 'drivers': case['drivers'], 'schedule_len': len(case.get('schedule', ())), 'context_switches': s.switches,
                'log_c0': [(m[1], m[2], (m[3][0] if isinstance(m[3], list) and m[3] else None) if isinstance(m[3], list) else None) for m in parse(out['logs']['c0'])][:10]}, every=197)


def same(tval, val):
    if isinstance(tval, tuple) and tval and tval[0] == 'error':
        return isinstance(val, tuple) and val[0] == 'error' and val[2] == tval[2]
    if isinstance(val, tuple):
        return False
    try:
        return int(tval) == int(val) if not isinstance(tval, (tuple, list)) else list(tval) == list(val)
    except (TypeError, ValueError):
        return tval == val


CATALOGUE = [
    # a scoped activation made while globally active survives the global deactivate
    {'conns': [[['activate', None, 0], ['activate', 'm0', 0], ['deactivate', None, 0.5], ['ping', None, 3.0]],
               [['activate', 'm0:_a', 0], ['activate', None, 0.5], ['deactivate', None, 0.5], ['ping', None, 3.0]]],
     'drivers': [[['assign', 'm0', 'a', 0.5], ['assign', 'm0', 'a', 1.0], ['assign', 'm0', 'b', 0.5]]]},
    # a module whose name is a proper prefix of another module's name: deactivating the shorter leaves the longer subscribed
    {'conns': [[['activate', 'm0x', 0], ['activate', 'm0', 0], ['deactivate', 'm0', 1.0], ['ping', None, 3.0]]],
     'drivers': [[['assign', 'm0x', 'a', 0.5], ['assign', 'm0x', 'a', 1.5], ['assign', 'm0', 'a', 0]]]},
    # subscriptions of different scope held by two connections on the same parameter
    {'conns': [[['activate', 'm0:_a', 0], ['ping', None, 6.0]], [['activate', None, 0.5], ['deactivate', None, 2.0], ['ping', None, 2.0]]],
     'drivers': [[['assign', 'm0', 'a', 1.0], ['assign', 'm0', 'a', 2.5], ['assign', 'm0', 'a', 1.0]]]},
    {'conns': [[['activate', 'm0', 0], ['activate', 'm0:_a', 0], ['deactivate', 'm0:_a', 2.0], ['ping', None, 2.0]], [['activate', 'm0:_a', 0.5], ['deactivate', 'm0:_a', 1.0], ['ping', None, 3.0]]],
     'drivers': [[['assign', 'm0', 'a', 1.0], ['assign', 'm0', 'a', 1.5], ['assign', 'm0', 'a', 1.5]]]},
    {'conns': [[['activate', None], ['deactivate', None]]], 'drivers': [[['assign', 'm0', 'a'], ['assign', 'm0', 'a'], ['assign', 'm0', 'a']]]},
    {'conns': [[['activate', 'm0'], ['deactivate', 'm0']]], 'drivers': [[['assign', 'm0', 'a'], ['read', 'm0', 'b'], ['assign', 'm1', 'a']]]},
    {'conns': [[['activate', 'm0:_a'], ['idn', None]]], 'drivers': [[['assign', 'm0', 'a'], ['assign', 'm0', 'a']]]},
    {'conns': [[['activate', None]], [['activate', 'm1'], ['deactivate', 'm1']]], 'drivers': [[['assign', 'm1', 'a'], ['error', 'm1', 'b'], ['read', 'm1', 'b']]]},
    {'conns': [[['activate', 'm0'], ['activate', 'm0:_a'], ['deactivate', 'm0']]], 'drivers': [[['assign', 'm0', 'a'], ['assign', 'm0', 'b']], [['assign', 'm0', 'a']]]},
]


def systematic(ctx, shard):
    """all schedules with one forced switch (and a budget of two) at the decision points of each catalogue scenario"""
    budget = 400 if ctx.tier == 'quick' else 6000
    for n, sc in enumerate(CATALOGUE):
        if n % shard['of'] != shard['idx'] - 14:
            continue
        case = dict(sc, kind='scenario', schedule=[])
        base = run_scenario(case)
        steps = base['sched'].steps
        done = 0
        for step in range(1, steps + 1):
            for k in (1, 2):
                check(ctx, case, {step: k})
                done += 1
        for s1 in range(1, steps + 1, 3):
            for s2 in range(s1 + 1, steps + 1, 5):
                if done >= budget:
                    break
                check(ctx, case, {s1: 1, s2: 1})
                done += 1
    ctx.extra['systematic_one_preemption_complete'] = True


def run_shard(ctx, shard):
    if shard['part'] == 'random':
        drive(scenario(), lambda case: check(ctx, case), shard['n'], ctx.seed * 1000 + shard['idx'])
    else:
        systematic(ctx, shard)


def valid_case(case):
    try:
        for script in case['conns']:
            for item in script:
                if item[0] not in ('activate', 'deactivate', 'idn', 'ping', 'help', 'describe') or item[1] not in SCOPES:
                    return False
        for ops in case['drivers']:
            for item in ops:
                if item[0] not in ('assign', 'read', 'error') or item[1] not in ('m0', 'm1', 'm0x') or item[2] not in ('a', 'b', 'hid'):
                    return False
        return bool(case['conns'])
    except (KeyError, TypeError, IndexError):
        return False


def run_case(ctx, case):
    if not valid_case(case):
        return
    pre = case.get('preempt')
    check(ctx, {k: v for k, v in case.items() if k != 'preempt'}, {int(k): v for k, v in pre.items()} if pre else None)
