"""C15 - lifecycle: initialise, write config, poll, serve; shutdown in reverse order

the real Server._processCfg (subclass without config files / signal handlers) and SecNode.shutdown_modules
with real poll threads; instrumented module classes log every lifecycle call. Oracles are order-only
(they hold under any thread timing if the code is right).
"""
import io
import sys
import time
import logging
import threading
import itertools
import contextlib

from hypothesis import strategies as st

from vf.runner import drive

PROPERTY = 'C15'
LEVEL = 'exploration'
RULE = ('All attachment graphs on up to 3 modules (each module has a mandatory-less "dep" and an optional "opt" attachment slot; self loops '
        'and cycles included) in all declaration orders are enumerated with default flags; Hypothesis adds graphs on up to 5 modules with '
        'flags per module: polling on/off, configured write, point where the attachment is first touched (earlyInit / initModule / '
        'startModule / never), raising earlyInit or initModule, wrong base class of the target, missing target, unexported module, shared '
        'communicator created from uri, a Pinata yielding a further module, a first poll round blocking past the (shortened) start '
        'time-out. One evaluation = one node start + shutdown. non-trivial: >= 2 attachment edges or a shared communicator, declared in '
        'non-topological order; distinct by (graph, order, flags).')
ASSUMPTIONS = ['real threads: schedules are whatever the OS produces; only order facts that must hold for every schedule are asserted',
               'the start time-out of frappy.server (MultiEvent default 30 s) is shortened to 0.3 s by subclassing']

N_EXAMPLES = {'quick': 60, 'thorough': 1200}
START_TIMEOUT = 0.3


def shards(tier, seed):
    return [{'idx': i, 'part': 'enum', 'of': 6} for i in range(6)] + [{'idx': 6 + i, 'n': N_EXAMPLES[tier], 'part': 'gen'} for i in range(10)]


class Recorder:
    def __init__(self):
        self.events = []
        self.lock = threading.Lock()

    def __call__(self, *args):
        with self.lock:
            self.events.append(args + (threading.current_thread().name, time.monotonic()))


def make_classes(rec, spec):
    from frappy.core import Readable, Parameter, IntRange, Attached, Module, Communicator, Property, StringType
    from frappy.io import HasIO
    from frappy.dynamic import Pinata

    class Base(Readable):
        dep = Attached(mandatory=False)
        opt = Attached(mandatory=False)
        w = Parameter('configured parameter', IntRange(), default=0, readonly=False)
        flags = {}

        def _touch(self, where):
            f = self.flags.get(self.name, {})
            if f.get('touch', 'init') == where:
                for slot in ('dep', 'opt'):
                    try:
                        other = getattr(self, slot)
                    except Exception as e:
                        rec('touch-error', self.name, slot, type(e).__name__)
                        raise
                    if other is not None:
                        rec('see', self.name, other.name, bool(other.earlyInitDone and other.initModuleDone))

        def earlyInit(self):
            rec('early', self.name)
            if self.flags.get(self.name, {}).get('fail') == 'early':
                raise RuntimeError(f'{self.name} fails in earlyInit')
            self._touch('early')
            super().earlyInit()

        def initModule(self):
            rec('init', self.name)
            if self.flags.get(self.name, {}).get('fail') == 'init':
                raise RuntimeError(f'{self.name} fails in initModule')
            self._touch('init')
            super().initModule()

        def startModule(self, start_events):
            rec('start', self.name)
            self._touch('start')
            super().startModule(start_events)

        def shutdownModule(self):
            rec('shutdown', self.name)
            if self.flags.get(self.name, {}).get('shutdown_fails'):
                raise RuntimeError(f'{self.name} fails in shutdownModule')
            super().shutdownModule()

        def write_w(self, value):
            rec('write_w', self.name, value)
            return value

        def read_value(self):
            rec('read', self.name)
            if self.flags.get(self.name, {}).get('slow'):
                time.sleep(START_TIMEOUT * 2.5)
            else:
                time.sleep(0.02)      # the first poll round takes a moment: "ready" has to wait for it
            rec('read-done', self.name)
            return 1.0

        def doPoll(self):
            rec('doPoll', self.name)
            super().doPoll()

    class NoPoll(Base):
        enablePoll = False

    class Other(Module):
        """not a Base: wrong class for an attachment which demands Base"""

    class Strict(Base):
        dep = Attached(Base, mandatory=False)

    class Must(Base):
        dep = Attached(mandatory=True)

    class Com(Communicator):
        uri = Property('uri of the device', StringType(), default='')

        def earlyInit(self):
            rec('early', self.name)
            super().earlyInit()

        def initModule(self):
            rec('init', self.name)
            super().initModule()

        def startModule(self, start_events):
            rec('start', self.name)
            super().startModule(start_events)

        def shutdownModule(self):
            rec('shutdown', self.name)

        def doPoll(self):
            rec('doPoll', self.name)

    class ComNP(Com):
        """a communicator which is not polled itself (its thread serves the modules using it)"""
        enablePoll = False

    class WithIONP(HasIO, Base):
        ioClass = ComNP

        def initModule(self):
            io = self.io
            rec('see', self.name, io.name, bool(io.earlyInitDone and io.initModuleDone))
            super().initModule()

    class ComUser(Base, Communicator):
        """a communicator which itself uses other modules (a multiplexer switched through another module)"""

        def communicate(self, command):
            return command

    class WithIO(HasIO, Base):
        ioClass = Com

        def initModule(self):
            io = self.io      # the automatically created (maybe shared) communicator is an attachment like any other
            rec('see', self.name, io.name, bool(io.earlyInitDone and io.initModuleDone))
            super().initModule()

    class Pin(Pinata):
        def earlyInit(self):
            rec('early', self.name)
            super().earlyInit()

        def initModule(self):
            rec('init', self.name)
            super().initModule()

        def startModule(self, start_events):
            rec('start', self.name)
            super().startModule(start_events)

        def shutdownModule(self):
            rec('shutdown', self.name)

        def scanModules(self):
            yield 'scanned', {'cls': Base, 'description': 'scanned module'}
    Base.flags = {m['name']: m for m in spec['mods']}
    return {'Base': Base, 'NoPoll': NoPoll, 'Other': Other, 'Strict': Strict, 'Must': Must, 'ComUser': ComUser, 'WithIO': WithIO, 'WithIONP': WithIONP, 'Pin': Pin}


def run_node(spec):
    """-> (events, outcome)  outcome: 'ready' | ('exit', stderr text) | ('exc', repr)"""
    import frappy.server as fsrv
    from frappy.server import Server
    from frappy.lib import generalConfig
    from frappy.lib.multievent import MultiEvent
    from frappy.logging import init_remote_logging
    from frappy.io import HasIO
    generalConfig.testinit(omit_unchanged_within=0)
    HasIO.ioDict.clear()
    rec = Recorder()
    classes = make_classes(rec, spec)
    cfg = {}
    for m in spec['mods']:
        c = {'cls': classes[m.get('cls', 'Base')], 'description': f'module {m["name"]}'}
        if m.get('dep') and m.get('dep_by') == 'class' and m.get('cls', 'Base') not in ('Other', 'Pin'):
            # the attachment is given by a subclass overriding the property with a bare value, not by the configuration
            c['cls'] = type(c['cls'].__name__ + 'Fixed', (c['cls'],), {'dep': m['dep']})
        elif m.get('dep') or m.get('dep') == '' and m.get('cls') == 'Must':
            c['dep'] = {'value': m['dep']}     # '' = configured, but empty
        if m.get('opt'):
            c['opt'] = {'value': m['opt']}
        if m.get('write') is not None and m.get('cls', 'Base') not in ('Other', 'Pin'):
            c['w'] = {'value': m['write']}
        if m.get('unexported'):
            c['export'] = {'value': False}
        if m.get('cls') in ('WithIO', 'WithIONP'):
            c['uri'] = {'value': m.get('uri', 'tcp://sharedhost:1')}
        if m.get('cls') in ('Other', 'Pin'):
            c = {'cls': c['cls'], 'description': c['description']}
        cfg[m['name']] = c
    log = logging.getLogger(f'c15-{id(rec)}')
    log.propagate = False

    class Kit(Server):
        def __init__(self):   # pylint: disable=super-init-not-called
            self.log = log.getChild('node')
            init_remote_logging(self.log)
            self.node_cfg = {'cls': 'frappy.protocol.dispatcher.Dispatcher', 'equipment_id': 'eq', 'description': 'lifecycle node'}
            self.module_cfg = cfg
            self._testonly = False
            self.name = 'kit'

    class ShortME(MultiEvent):
        def __init__(self, default_timeout=None):
            super().__init__(START_TIMEOUT)
    real_me = fsrv.MultiEvent
    fsrv.MultiEvent = ShortME
    k = Kit()
    err = io.StringIO()
    outcome = None
    old_limit = sys.getrecursionlimit()
    try:
        with contextlib.redirect_stderr(err):
            try:
                k._processCfg()
                rec('ready')
                outcome = 'ready'
            except SystemExit:
                rec('exit')
                outcome = ('exit', err.getvalue())
            except Exception as e:   # noqa
                rec('exception', type(e).__name__)
                outcome = ('exc', repr(e))
        if outcome == 'ready':
            time.sleep(0.02)
            rec('shutdown-begin')
            try:
                k.secnode.shutdown_modules()
                rec('shutdown-end')
            except Exception as e:   # noqa
                rec('shutdown-exception', f'{type(e).__name__}: {e}')
    finally:
        fsrv.MultiEvent = real_me
        sys.setrecursionlimit(old_limit)
        try:
            if outcome != 'ready' and hasattr(k, 'secnode'):
                for m in k.secnode.modules.values():
                    m.stopPollThread()
        except Exception:   # noqa
            pass
    time.sleep(0.01)
    return list(rec.events), outcome, k


def edges(spec, touches):
    mods = {m['name']: m for m in spec['mods']}
    res = {}
    for m in spec['mods']:
        if m.get('cls', 'Base') in ('Other', 'Pin') or m.get('touch', 'init') not in touches:
            continue
        res[m['name']] = [m[s_] for s_ in ('dep', 'opt') if m.get(s_) and (m[s_] in mods or m[s_] == 'scanned')]
    return res


def cycle_members(spec, touches):
    """modules lying on a cycle of attachments touched at the given points"""
    g = edges(spec, touches)
    members = set()
    for start in g:
        stack, seen = list(g.get(start, [])), set()
        while stack:
            cur = stack.pop()
            if cur == start:
                members.add(start)
                break
            if cur in seen:
                continue
            seen.add(cur)
            stack.extend(g.get(cur, []))
    return members


def expected_refusal(spec):
    """reference: reasons why the node must refuse to start -> list of (reason, culprits); [] = must start.
    Only attachments first touched during earlyInit/initModule count: a later or never touched attachment is not a
    dependency the node can know of when it decides to start"""
    mods = {m['name']: m for m in spec['mods']}
    reasons = []
    for m in spec['mods']:
        if m.get('cls', 'Base') in ('Other', 'Pin'):
            continue
        if m.get('fail'):
            reasons.append(('init-raises', {m['name']}))
        if m.get('cls') == 'Must' and m.get('dep') is None:
            reasons.append(('missing', {m['name']}))     # a mandatory attachment which is not configured at all
        if m.get('touch', 'init') not in ('early', 'init'):
            continue
        for slot in ('dep', 'opt'):
            t = m.get(slot)
            if not t:
                if slot == 'dep' and m.get('cls') == 'Must' and t == '':
                    reasons.append(('missing', {m['name']}))     # ... or configured as empty: missing as well
                continue
            if t not in mods and t != 'scanned':
                reasons.append(('missing', {m['name']}))
            elif slot == 'dep' and m.get('cls') == 'Strict' and mods.get(t, {}).get('cls') in ('Other', 'Pin'):
                reasons.append(('wrong-class', {m['name']}))
    cyc = cycle_members(spec, ('early', 'init'))
    if cyc:
        reasons.append(('cycle', cyc))
    return reasons


def late_trouble(spec):
    """attachments touched in startModule or never: outcome not asserted when they are bad or cyclic"""
    mods = {m['name']: m for m in spec['mods']}
    for m in spec['mods']:
        if m.get('cls', 'Base') in ('Other', 'Pin') or m.get('touch', 'init') != 'start':
            continue
        if m.get('cls') == 'Must' and m.get('dep') == '':
            return True
        for slot in ('dep', 'opt'):
            t = m.get(slot)
            if t and ((t not in mods and t != 'scanned') or (slot == 'dep' and m.get('cls') == 'Strict' and mods.get(t, {}).get('cls') in ('Other', 'Pin'))):
                return True
    return bool(cycle_members(spec, ('early', 'init', 'start')) - cycle_members(spec, ('early', 'init')))


def check(ctx, spec):
    ctx.ev()
    t0 = time.time()
    events, outcome, kit = run_node(spec)
    elapsed = time.time() - t0
    names = [m['name'] for m in spec['mods']]
    mods = {m['name']: m for m in spec['mods']}
    nedges = sum(1 for m in spec['mods'] for s_ in ('dep', 'opt') if m.get(s_))
    shared = sum(1 for m in spec['mods'] if m.get('cls') == 'WithIO') >= 2
    # topological = every target declared before its user
    nontopo = any(m.get(s_) in names and names.index(m[s_]) > names.index(m['name']) for m in spec['mods'] for s_ in ('dep', 'opt') if m.get(s_))
    if (nedges >= 2 or shared) and nontopo:
        ctx.nt(repr(spec))
    reasons = expected_refusal(spec)
    refusal = reasons[0][0] if reasons else None
    ctx.label(f'expect:{"refuse:" + refusal if refusal else "start"}', f'outcome:{outcome if isinstance(outcome, str) else outcome[0]}')
    if not reasons and late_trouble(spec):
        ctx.label('late-touched-bad-attachment:not-asserted')
        return
    ctx.sample({'spec': spec, 'outcome': outcome if isinstance(outcome, str) else outcome[0],
                'events': [e[:3] for e in events if e[0] not in ('read', 'doPoll')][:16]}, every=53)
    kinds = lambda k: [e for e in events if e[0] == k]    # noqa
    if elapsed > 8:
        ctx.finding('startup-hangs', spec, f'{elapsed:.1f} s')
        return
    if refusal:
        if outcome == 'ready':
            ctx.finding(f'bad-attachment-accepted:{refusal}', spec, f'{reasons}: node reported ready; events {[e[:3] for e in events][:12]}')
            return
        if outcome[0] == 'exc':
            ctx.finding(f'refusal-by-exception:{refusal}', spec, outcome[1][:300])
            return
        culprits = set().union(*[c for _, c in reasons])
        if not any(c in outcome[1] for c in culprits):
            ctx.finding(f'refusal-does-not-name-module:{refusal}', spec, f'none of {sorted(culprits)} in {outcome[1][:300]!r}')
        # instead of a half-started node: nothing was started, polled, read or written
        active = [e for e in events if e[0] in ('start', 'doPoll', 'read', 'write_w')]
        if active:
            ctx.finding(f'half-started:{active[0][0]}:{refusal}', spec, f'{reasons}: before the refusal: {[e[:2] for e in active][:8]}')
            return
        ctx.ok('refused-cleanly')
        return
    if outcome != 'ready':
        ctx.finding(f'valid-configuration-refused:{outcome[0]}', spec, str(outcome[1])[:400])
        return
    lifecycle = [m['name'] for m in spec['mods'] if m.get('cls', 'Base') != 'Other'] + (['scanned'] if any(m.get('cls') == 'Pin' for m in spec['mods']) else [])
    ios = {e[1] for e in events if e[0] == 'early'} - set(lifecycle)
    lifecycle += sorted(ios)
    idx = {}
    for n, e in enumerate(events):
        idx.setdefault((e[0], e[1] if len(e) > 3 else None), []).append(n)
    ready_at = idx[('ready', None)][0]
    for name in lifecycle:
        counts = {k: len(idx.get((k, name), [])) for k in ('early', 'init', 'start')}
        if counts != {'early': 1, 'init': 1, 'start': 1}:
            flag = 'unexported' if mods.get(name, {}).get('unexported') else 'exported'
            ctx.finding(f'lifecycle-count:{flag}:' + ','.join(f'{k}={v}' for k, v in counts.items()), spec, f'{name}: {counts}')
            return
        e_, i_, s_ = idx[('early', name)][0], idx[('init', name)][0], idx[('start', name)][0]
        if not e_ < i_ < s_ < ready_at:
            ctx.finding('lifecycle-order', spec, f'{name}: early {e_}, init {i_}, start {s_}, ready {ready_at}')
            return
    ctx.ok('early-init-start-once-in-order')
    # a module reached through an attachment is fully initialised before its user sees it
    for e in kinds('see'):
        if not e[3]:
            ctx.finding('attached-module-seen-uninitialised', spec, f'{e[1]} saw {e[2]} before it was initialised')
            return
    ctx.ok('attached-initialised-before-seen')
    # configured start values are written before the first poll of that module
    for m in spec['mods']:
        if m.get('write') is None or m.get('cls', 'Base') in ('Other', 'Pin'):
            continue
        name = m['name']
        wr = [n for n, e in enumerate(events) if e[0] == 'write_w' and e[1] == name]
        first_poll = min([n for n, e in enumerate(events) if e[0] in ('doPoll', 'read') and e[1] == name] or [len(events)])
        if len(wr) != 1 or events[wr[0]][2] != m['write']:
            ctx.finding(f'configured-write-count:{len(wr)}', spec, f'{name}: {[events[n][:3] for n in wr]}')
            return
        if wr[0] > first_poll:
            ctx.finding('configured-write-after-first-poll', spec, name)
            return
    ctx.ok('writes-before-first-poll')
    # ready only after every poll thread finished its first round (or timed out)
    for m in spec['mods']:
        if m.get('cls', 'Base') in ('Base', 'Strict', 'Must', 'ComUser', 'WithIO', 'WithIONP') and not m.get('slow'):
            name = m['name']
            first = [n for n, e in enumerate(events) if e[0] == 'read-done' and e[1] == name]
            anyslow = any(x.get('slow') for x in spec['mods'])
            if (not first or first[0] > ready_at) and not anyslow:
                # "or timed out": on a loaded machine a first round may take longer than the (shortened) start time-out
                t_start = max([e[-1] for e in events[:ready_at] if e[0] == 'start'], default=None)
                if t_start is not None and events[ready_at][-1] - t_start >= START_TIMEOUT * 0.9:
                    ctx.label('ready-after-start-timeout')
                    continue
                ctx.finding('ready-before-first-poll-round', spec, f'{name}: first read at {first[:1]}, ready at {ready_at}')
                return
    ctx.ok('ready-after-first-round')
    # shutdown: pollers stopped first, every module exactly once, users before the modules they are attached to
    failing_ = [m['name'] for m in spec['mods'] if m.get('shutdown_fails') and m.get('cls', 'Base') not in ('Other', 'Pin')]
    if failing_:
        # a module failing in its own shutdown: the others are shut down nevertheless, each exactly once
        done_ = [e[1] for e in events if e[0] == 'shutdown']
        expected_ = [m['name'] for m in spec['mods'] if m.get('cls', 'Base') != 'Other']
        missing_ = [n for n in expected_ if n not in done_]
        if missing_:
            ctx.finding('shutdown-of-other-modules-skipped-after-a-failing-one', spec, f'{missing_!r} never shut down; done {done_!r}')
            return
        if len(set(done_)) != len(done_):
            ctx.finding('shutdown-twice', spec, repr(done_))
            return
        ctx.ok('shutdown-continues-after-a-failing-module')
        return
    for e in kinds('shutdown-exception'):
        ctx.finding('shutdown-raised', spec, f'shutdown_modules raised {e[1]}; shut down so far {[x[1] for x in events if x[0] == "shutdown"]}')
        return
    shut = [(n, e[1]) for n, e in enumerate(events) if e[0] == 'shutdown']
    first_shut = min([n for n, _ in shut] or [len(events)])
    polls_after = [e for n, e in enumerate(events) if n > first_shut and e[0] == 'doPoll']
    if polls_after and not any(m.get('slow') for m in spec['mods']):
        ctx.finding('poll-after-first-shutdownModule', spec, repr(polls_after[:3]))
        return
    # ... and joined: nothing of a module is read or polled any more once its shutdownModule has been called
    for n, name in shut:
        late = [e for k, e in enumerate(events) if k > n and e[0] in ('read', 'read-done', 'doPoll') and e[1] == name]
        if late and not any(m.get('slow') for m in spec['mods']):
            ctx.finding('poll-activity-after-own-shutdownModule', spec, f'{name}: {late[:3]!r} after its shutdownModule')
            return
    for name in lifecycle:
        c = sum(1 for _, x in shut if x == name)
        if c != 1:
            ctx.finding(f'shutdown-count:{c}', spec, f'{name}: shut down {c} times; order {[x for _, x in shut]}')
            return
    order = [x for _, x in shut]
    if cycle_members(spec, ('early', 'init', 'start')):
        return      # the statement is about acyclic graphs; with a cycle among the resolved attachments any order is possible
    for e in kinds('see'):
        user, target = e[1], e[2]
        if user in order and target in order and user != target and order.index(user) > order.index(target):
            cyc = expected_cycle(spec, user)
            if not cyc:
                ctx.finding('shutdown-target-before-user', spec, f'{target} shut down before its user {user}: {order}')
                return
    ctx.ok('shutdown-order')


def expected_cycle(spec, start):
    mods = {m['name']: m for m in spec['mods']}
    seen, stack = set(), [start]
    while stack:
        cur = stack.pop()
        for slot in ('dep', 'opt'):
            t = mods.get(cur, {}).get(slot)
            if t == start:
                return True
            if t and t not in seen:
                seen.add(t)
                stack.append(t)
    return False


def enumerate_graphs(maxn=3):
    """all graphs on <= maxn modules: each module's dep/opt slot points to nothing, itself or another module; all declaration orders"""
    for n in range(1, maxn + 1):
        names = [chr(97 + i) for i in range(n)]
        targets = [None] + names
        for deps in itertools.product(targets, repeat=n):
            for opts in itertools.product([None] + names[:1], repeat=n):     # optional slot: nothing or the first module
                for order in itertools.permutations(range(n)):
                    yield {'kind': 'node', 'mods': [{'name': names[i], 'dep': deps[i], 'opt': opts[i]} for i in order]}


@st.composite
def gen_spec(draw):
    n = draw(st.integers(2, 5))
    names = [chr(97 + i) for i in range(n)]
    mods = []
    for name in names:
        cls = draw(st.sampled_from(['Base', 'Base', 'Base', 'NoPoll', 'Strict', 'Must', 'ComUser', 'WithIO', 'WithIONP', 'Other', 'Pin']))
        if cls == 'Pin' and any(m.get('cls') == 'Pin' for m in mods):
            cls = 'Base'
        m = {'name': name, 'cls': cls}
        if cls not in ('Other', 'Pin'):
            m['dep'] = draw(st.sampled_from([None, None] + names + ['nix'] + (names + ['', ''] if cls == 'Must' else [])))
            if m['dep'] and draw(st.integers(0, 3)) == 0:
                m['dep_by'] = 'class'
            m['opt'] = draw(st.sampled_from([None, None, None] + names))
            m['touch'] = draw(st.sampled_from(['early', 'init', 'init', 'start', 'never']))
            m['write'] = draw(st.sampled_from([None, None, 5]))
            m['fail'] = draw(st.sampled_from([None] * 9 + ['early', 'init']))
            m['slow'] = draw(st.integers(0, 14)) == 0 and cls != 'NoPoll'
            m['unexported'] = draw(st.integers(0, 5)) == 0
            m['shutdown_fails'] = draw(st.integers(0, 11)) == 0
            if cls in ('WithIO', 'WithIONP'):
                m['uri'] = draw(st.sampled_from(['tcp://sharedhost:1', 'tcp://sharedhost:1', 'tcp://otherhost:2']))
        mods.append(m)
    order = draw(st.permutations(list(range(n))))
    return {'kind': 'node', 'mods': [mods[i] for i in order]}


def fixed_specs():
    """layouts with automatically created communicators reached through other modules, in every declaration order"""
    import itertools
    base = [{'name': 'top', 'cls': 'Base', 'dep': 'dev', 'touch': 'init'},
            {'name': 'dev', 'cls': 'WithIO', 'uri': 'tcp://sharedhost:1', 'touch': 'init'},
            {'name': 'dev2', 'cls': 'WithIO', 'uri': 'tcp://sharedhost:1', 'touch': 'init', 'dep': 'top'}]
    for k in (2, 3):
        for order in itertools.permutations(range(k)):
            mods = [dict(base[i]) for i in order]
            if k == 2:
                yield {'kind': 'node', 'mods': mods}
            else:
                yield {'kind': 'node', 'mods': [dict(m, dep=None) if m['name'] == 'dev2' else m for m in mods]}
                yield {'kind': 'node', 'mods': [dict(m, touch='early') for m in mods if m['name'] != 'dev2'] + [dict(base[2], dep=None)]}
    for touch in ('early', 'start'):
        yield {'kind': 'node', 'mods': [dict(base[0], touch=touch), dict(base[1])]}
    # an attachment demanding a class, fixed by a bare value in a subclass ('dep_by': 'class'), pointing to a module of another class
    for order in ([0, 1], [1, 0]):
        mods = [{'name': 'user', 'cls': 'Strict', 'dep': 'wrong', 'dep_by': 'class', 'touch': 'init'}, {'name': 'wrong', 'cls': 'Other'}]
        yield {'kind': 'node', 'mods': [mods[i] for i in order]}
        mods = [{'name': 'user', 'cls': 'Strict', 'dep': 'right', 'dep_by': 'class', 'touch': 'init'}, {'name': 'right', 'cls': 'Base'}]
        yield {'kind': 'node', 'mods': [mods[i] for i in order]}
    # modules on a communicator which is not polled itself: with and without configured start values
    for write in (None, 5):
        yield {'kind': 'node', 'mods': [{'name': 'dev', 'cls': 'WithIONP', 'uri': 'tcp://sharedhost:1', 'touch': 'init', 'write': write},
                                        {'name': 'dev2', 'cls': 'WithIONP', 'uri': 'tcp://sharedhost:1', 'touch': 'init'}]}
    # a communicator which is itself the user of a plain module
    for order in ([0, 1, 2], [2, 1, 0], [1, 2, 0]):
        mods = [{'name': 'dev', 'cls': 'Base', 'dep': 'mux', 'touch': 'init'}, {'name': 'mux', 'cls': 'ComUser', 'dep': 'sw', 'touch': 'init'},
                {'name': 'sw', 'cls': 'Base', 'touch': 'init'}]
        yield {'kind': 'node', 'mods': [mods[i] for i in order]}


def run_shard(ctx, shard):
    if shard['part'] == 'enum' and shard['idx'] == 0:
        for spec in fixed_specs():
            check(ctx, spec)
    if shard['part'] == 'enum':
        for n, spec in enumerate(enumerate_graphs(3 if ctx.tier == 'quick' else 4)):
            if n % shard['of'] == shard['idx']:
                if ctx.tier == 'quick' and len(spec['mods']) == 3 and n % 4:
                    continue
                check(ctx, spec)
        ctx.extra['enumerated_graphs_max_modules'] = 3 if ctx.tier == 'quick' else 4
    else:
        drive(gen_spec(), lambda spec: check(ctx, spec), shard['n'], ctx.seed * 1000 + shard['idx'])


def run_case(ctx, case):
    try:
        ok = case['mods'] and len({m['name'] for m in case['mods']}) == len(case['mods']) and all(m['name'] for m in case['mods']) and \
            all(m.get('cls', 'Base') in ('Base', 'NoPoll', 'Other', 'Strict', 'Must', 'ComUser', 'WithIO', 'WithIONP', 'Pin') for m in case['mods'])
    except (KeyError, TypeError):
        ok = False
    if ok:
        check(ctx, case)
