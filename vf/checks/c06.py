"""C06 - the node's self-description is true of its behaviour

nodes from generated classes (incl. constants of every datatype, hidden/custom named accessibles,
an unexported module, units with $) and the shipped configurations that build offline;
the description is compared with what the node actually does.
"""
import io
import os
import json
import glob
import contextlib

from hypothesis import strategies as st

from vf import refmodel as rm
from vf import specs, classgen
from vf.nodekit import Kit, FakeConn
from vf.runner import drive, REPO
from vf.checks.c04 import model_params, partial_without_prev

PROPERTY = 'C06'
LEVEL = 'exploration'
RULE = ('Hypothesis draws 1-3 module classes (parameters of all datatypes, readonly/constant/hidden/custom-named, commands, '
        'one module possibly unexported, optional main unit with $-units) and builds a node with the real SecNode/Dispatcher; '
        'every parameter is probed with the wire catalogue of its datatype (node verdict vs. verdict of the datatype rebuilt from '
        'the description), every emitted value is imported with the described datainfo, undescribed names are attacked with '
        'read/change/do/activate. The shipped cfg/*_cfg.py that build offline are checked structurally (simulation ones also '
        'behaviourally). One evaluation = one probe or request. non-trivial: node with a hidden, custom-named or constant '
        'accessible; distinct by node spec.')
ASSUMPTIONS = ['modules of generated nodes have no check hooks or dynamic limits (those are C04)',
               'payloads with a partial struct element without previous value are excluded (known finding of C04)']

N_EXAMPLES = {'quick': 250, 'thorough': 4000}
PROBES_PER_PARAM = {'quick': 45, 'thorough': 200}


def shards(tier, seed):
    return [{'idx': i, 'n': N_EXAMPLES[tier], 'probes': PROBES_PER_PARAM[tier]} for i in range(15)] + [{'idx': 'shipped'}]


@st.composite
def node_case(draw):
    n = draw(st.integers(1, 3))
    classes = []
    for i in range(n):
        cs = draw(classgen.class_spec(max_params=4, max_cmds=2, depth=2, safe_const=False, ro_variants=True))
        for p in cs['params']:
            p.pop('limits', None)
            p.pop('check', None)
        cs['export'] = not (i == n - 1 and n > 1 and draw(st.integers(0, 3)) == 0)
        cs['base'] = draw(st.sampled_from(['Module', 'Module', 'Readable', 'Writable', 'Drivable']))
        cs['feature'] = draw(st.integers(0, 3)) == 0
        cs['indirect'] = draw(st.integers(0, 2)) == 0
        classes.append(cs)
    return {'kind': 'node', 'classes': classes, 'seed': draw(st.integers(0, 1 << 30))}


def expected_accessibles(cs):
    """wire names in the documented order (custom accessibles in definition order)"""
    iparams, icmds, feat = classgen.inherited(cs)
    names = [p['export'] for p in iparams] + icmds
    for p in feat + cs['params']:
        w = classgen.wire_name(p['name'], p.get('export', True))
        if w:
            names.append(w)
    for c in cs.get('cmds', []):
        w = classgen.wire_name(c['name'], c.get('export', True))
        if w:
            names.append(w)
    return names


def check_node(ctx, case, nprobes=45):
    from frappy.datatypes import get_datatype
    from frappy.errors import BadValueError
    classes = [classgen.build_class(cs, f'G{i}') for i, cs in enumerate(case['classes'])]
    eff = [classgen.effective_spec(cs) for cs in case['classes']]   # what the configured instances should show
    cfg = {}
    for i, (c, cs) in enumerate(zip(classes, case['classes'])):
        cfg[f'm{i}'] = dict({'cls': c, 'description': f'module {i}'}, **classgen.cfg_overrides(cs))
        if not cs.get('export', True):
            cfg[f'm{i}']['export'] = False
    key = json.dumps(case['classes'], sort_keys=True, default=repr)
    if any(p.get('constant') or p.get('export', True) is not True for cs in case['classes'] for p in cs['params']):
        ctx.nt(key)
    ctx.ev()
    ctx.sample({'node': case['classes']}, every=97)
    try:
        kit = Kit(cfg)
    except Exception as e:   # noqa
        ctx.finding(f'build:exception:{type(e).__name__}', case, repr(e))
        return
    if kit.errors:
        why = 'constant' if any(p.get('constant') for cs in case['classes'] for p in cs['params']) else 'other'
        ctx.finding(f'build:generated-node-refused:{why}', case, repr(kit.errors)[:200] + ' '.join(kit.tb)[-400:])
        return
    # --- structure report
    d1 = kit.describe()
    try:
        text = json.dumps(d1, allow_nan=False)
        d = json.loads(text)
    except Exception as e:   # noqa
        ctx.finding(f'describe:not-strict-json:{type(e).__name__}', case, repr(e))
        return
    d2 = json.loads(json.dumps(kit.describe()))
    if d != d2:
        ctx.finding('describe:unstable', case, '')
    else:
        ctx.ok('describe-stable')
    exported = [f'm{i}' for i, cs in enumerate(case['classes']) if cs.get('export', True)]
    if list(d['modules']) != exported:
        ctx.finding('describe:modules-differ', case, f'{list(d["modules"])} vs {exported}')
    else:
        ctx.ok('describe-modules')
    conn = FakeConn('c')
    for i, cs in enumerate(eff):
        mname = f'm{i}'
        rec = classes[i].rec
        if mname not in d['modules']:
            attack_undescribed_module(ctx, case, kit, conn, mname, cs, rec)
            continue
        md = d['modules'][mname]
        want = expected_accessibles(cs)
        if list(md['accessibles']) != want:
            ctx.finding('describe:accessibles-differ' if set(md['accessibles']) != set(want) else 'describe:accessible-order', case,
                        f'{list(md["accessibles"])} vs {want}')
        else:
            ctx.ok('describe-accessibles')
        want_ifc = [] if cs.get('base', 'Module') == 'Module' else [cs['base']]
        want_feat = ['Feat'] if cs.get('feature') else []
        ctx.label(f'base:{cs.get("base", "Module")}')
        if md.get('interface_classes') != want_ifc or md.get('features') != want_feat or not str(md.get('implementation', '')).endswith(f'G{i}'):
            ctx.finding('describe:module-properties', case, repr({k: v for k, v in md.items() if k != 'accessibles'}))
        else:
            ctx.ok('describe-module-properties')
        iparams, _, feat = classgen.inherited(cs)
        for p in [q for q in iparams if q['T']] + feat + cs['params']:
            wire = classgen.wire_name(p['name'], p.get('export', True))
            if wire is None or wire not in md['accessibles']:
                attack_undescribed(ctx, case, kit, conn, mname, p['name'], 'param', rec)
                continue
            check_param(ctx, case, kit, conn, mname, p, wire, md['accessibles'][wire], rec, nprobes)
        for c in cs.get('cmds', []):
            wire = classgen.wire_name(c['name'], c.get('export', True))
            if wire is None or wire not in md['accessibles']:
                attack_undescribed(ctx, case, kit, conn, mname, c['name'], 'cmd', rec)
                continue
            info = md['accessibles'][wire]['datainfo']
            exp = {'type': 'command'}
            if c.get('arg'):
                exp['argument'] = specs.build(c['arg']).export_datatype()
            if c.get('result'):
                exp['result'] = specs.build(c['result']).export_datatype()
            if norm_optional(info) != norm_optional(json.loads(json.dumps(exp))):
                ctx.finding('describe:command-datainfo', case, f'{info!r} vs {exp!r}')
            else:
                ctx.ok('describe-command')
            check_command(ctx, case, kit, conn, mname, c, wire, info, nprobes)
    # --- global activation never shows undescribed things, every update importable
    conn2 = FakeConn('a')
    r = kit.request(conn2, ('activate', None, None))
    ctx.ev()
    if r[0] != 'active':
        ctx.finding('activate:refused', case, repr(r)[:300])
    # the snapshot: nothing of a generated node fails to read, a constant shows as the described constant
    with_start_value = {f'm{i}:{classgen.wire_name(p["name"], p.get("export", True))}' for i, cs in enumerate(eff) for p in cs['params']}
    for msg in list(conn2.log):
        if msg[0] == 'error_update' and msg[1] in with_start_value:   # (value/status of the base classes wait for their first poll)
            m, _, a = msg[1].partition(':')
            isconst = 'constant' in d['modules'].get(m, {}).get('accessibles', {}).get(a, {})
            ctx.finding(f'activate:snapshot-error:{"constant" if isconst else "parameter"}:{msg[2][0]}', case, repr(msg)[:300])
        elif msg[0] == 'update':
            m, _, a = msg[1].partition(':')
            desc = d['modules'].get(m, {}).get('accessibles', {}).get(a, {})
            if 'constant' in desc:
                if json.loads(json.dumps(msg[2][0])) != desc['constant']:
                    ctx.finding('activate:constant-differs-from-description', case, f'{msg!r} vs {desc["constant"]!r}')
                else:
                    ctx.ok('constant-update-as-described')
    for i, cs in enumerate(case['classes']):
        mobj = kit.modules[f'm{i}']
        for p in cs['params']:
            if not p.get('constant'):
                try:
                    setattr(mobj, p['name'], p['default'])   # driver side assignment of an in-type value
                    mobj.announceUpdate(p['name'], p['default'])
                except Exception as e:   # noqa
                    ctx.finding(f'driver-assign:{type(e).__name__}', case, repr(e))
    described = {f'{m}:{a}' for m, md in d['modules'].items() for a in md['accessibles']}
    log2 = list(conn2.log)
    runtime_change(ctx, case, kit)
    for msg in log2:
        ctx.ev()
        if msg[0] not in ('update', 'error_update'):
            continue
        if msg[1] not in described:
            ctx.finding('activate:update-for-undescribed', case, repr(msg)[:200])
            continue
        ctx.ok('update-described')
        if msg[0] == 'update':
            m, a = msg[1].split(':')
            info = d['modules'][m]['accessibles'][a]['datainfo']
            try:
                j = json.loads(json.dumps(msg[2][0], allow_nan=False))
                cdt = get_datatype(info, a)
                cdt.validate(cdt.import_value(j))
                ctx.ok('emitted-value-importable')
            except Exception as e:   # noqa
                ctx.finding(f'emitted:update-not-importable:{info.get("type")}:{type(e).__name__}', case, f'{msg!r}: {e!r}')


def runtime_change(ctx, case, kit):
    """a driver changes the datatype of a parameter at run time (limits or units read from the hardware, as some drivers do):
    the description given afterwards shows the datatype as it is now"""
    changed = []
    for mname, mobj in kit.modules.items():
        for pname, pobj in mobj.parameters.items():
            if not pobj.export or pobj.export is True:
                continue
            dt = pobj.datatype
            # (widening only, so that the cached values and constants stay valid)
            for key, newval in (('unit', lambda d_: 'mutated'), ('max', lambda d_: d_.max + 1), ('maxchars', lambda d_: d_.maxchars + 1),
                                ('maxlen', lambda d_: d_.maxlen + 1)):
                try:
                    if key not in dt.propertyDict:
                        continue
                    before = json.dumps(dt.export_datatype(), sort_keys=True)
                    dt.setProperty(key, newval(dt))
                    dt.checkProperties()
                    if json.dumps(dt.export_datatype(), sort_keys=True) != before:
                        changed.append((mname, pobj.export, pobj))
                        break
                except Exception:   # noqa - not settable to that value
                    pass
            if changed and changed[-1][0] == mname:
                break
    if not changed:
        return
    ctx.ev()
    try:
        d = json.loads(json.dumps(kit.describe()))
    except Exception as e:   # noqa - the change made here does not fit the module (not a statement about the node)
        ctx.label(f'runtime-change:describe-raises:{type(e).__name__}')
        return
    for mname, wire, pobj in changed:
        got = d['modules'].get(mname, {}).get('accessibles', {}).get(wire, {}).get('datainfo')
        want = json.loads(json.dumps(pobj.datatype.export_datatype()))
        if got != want:
            ctx.finding('describe:stale-after-runtime-change', case, f'{mname}:{wire}: described {got!r}, the datatype is now {want!r}')
            return
    ctx.ok('describe-follows-runtime-change')


def norm_optional(info):
    """the order of the names in 'optional' carries no meaning"""
    if isinstance(info, dict):
        return {k: sorted(v) if k == 'optional' else norm_optional(v) for k, v in info.items()}
    if isinstance(info, list):
        return [norm_optional(v) for v in info]
    return info


def check_param(ctx, case, kit, conn, mname, p, wire, desc, rec, nprobes):
    from frappy.datatypes import get_datatype
    T = classgen.effective_T(p)     # class datatype with the configured properties applied
    if p.get('cfgT'):
        ctx.label('param:configured-limits')
    if p.get('ro_how'):
        ctx.label(f'param:readonly:{p["ro_how"]}')
    spec = f'{mname}:{wire}'
    sub = {'kind': 'node', 'classes': case['classes'], 'focus': spec}
    try:
        cdt = get_datatype(desc['datainfo'], wire)
    except Exception as e:   # noqa
        ctx.finding(f'describe:datainfo-not-rebuildable:{T["k"]}', sub, repr(e))
        return
    if desc['datainfo'] != json.loads(json.dumps(specs.build(T).export_datatype())):
        ctx.finding('describe:datainfo-differs-from-class' + ('+cfg' if p.get('cfgT') else ''), sub, repr(desc['datainfo']))
    readonly = bool(p.get('readonly') or p.get('constant'))
    if bool(desc.get('readonly')) != readonly:
        ctx.finding('describe:readonly-flag', sub, repr(desc))
    # a constant reads as exactly the described constant
    if p.get('constant'):
        ctx.ev()
        if 'constant' not in desc:
            ctx.finding('constant:not-described', sub, repr(desc))
        else:
            want = json.loads(json.dumps(cdt.export_value(cdt.validate(rm.to_wire(T, p['default']) if False else cdt.import_value(rm.to_wire(T, p['default']))))))
            if desc['constant'] != want:
                ctx.finding(f'constant:described-value-wrong:{T["k"]}', sub, f'{desc["constant"]!r} vs {want!r}')
            r = kit.request(conn, ('read', spec, None))
            if r[0] != 'reply':
                ctx.finding(f'constant:read-fails:{r[2][0] if r[0].startswith("error") else r[0]}', sub, repr(r)[:200])
            elif not isinstance(r[2], list) or len(r[2]) != 2 or not isinstance(r[2][1], dict):
                ctx.finding('constant:read-reply-malformed', sub, f'{r[2]!r} for constant {desc["constant"]!r}')
            elif json.loads(json.dumps(r[2][0])) != desc['constant']:
                ctx.finding(f'constant:read-differs-from-description:{T["k"]}', sub, f'{r[2]!r} vs {desc["constant"]!r}')
            else:
                ctx.ok('constant-reads-as-described')
    else:
        ctx.ev()
        r = kit.request(conn, ('read', spec, None))
        if r[0] != 'reply':
            ctx.finding(f'read:fails:{r[2][0]}', sub, repr(r)[:200])
        else:
            importable(ctx, sub, cdt, r[2][0], 'read', T)
    # the described datainfo accepts and rejects what the node accepts and rejects
    base = rm.to_wire(T, p['default'])
    cat = specs.catalogue(T, 'wire', 0, base)
    step = max(1, len(cat) // nprobes)
    mobj = kit.modules[mname]
    for label, x in cat[::step]:
        ctx.ev()
        prev = rm.canon(mobj.parameters[p['name']].value)
        if partial_without_prev(T, x, prev, True):
            continue
        before = len(rec['calls'])
        r = kit.request(conn, ('change', spec, x))
        accepted = r[0] == 'changed'
        if readonly:
            if accepted or r[2][0] != 'ReadOnly' or len(rec['calls']) != before:
                ctx.finding('readonly:change-not-refused', dict(sub, x=x), repr(r)[:200])
            else:
                ctx.ok('readonly-predicts-refusal')
            continue
        try:
            cdt.validate(cdt.import_value(x))
            client_ok = True
        except Exception:   # noqa
            client_ok = False
        if accepted != client_ok:
            ctx.finding(f'datainfo:verdict-differs:{rm.status(T, x, "wire")[1] or "valid"}', dict(sub, x=x),
                        f'{x!r}: node {"accepts" if accepted else r[2][:2]}, described datainfo {"accepts" if client_ok else "rejects"}')
        else:
            ctx.ok('datainfo-verdict-agrees')
        if accepted:
            importable(ctx, dict(sub, x=x), cdt, r[2][0], 'changed', T)


def check_command(ctx, case, kit, conn, mname, c, wire, info, nprobes):
    """the described argument datainfo accepts and rejects what the node executes and refuses"""
    from frappy.datatypes import get_datatype
    spec = f'{mname}:{wire}'
    sub = {'kind': 'node', 'classes': case['classes'], 'focus': spec}
    A = c.get('arg')
    if A is None:
        probes = [('null', None), ('zero', 0), ('0.0', 0.0), ('false', False), ('empty-str', ''), ('empty-list', []),
                  ('empty-dict', {}), ('one', 1), ('str', 'x'), ('list', [1]), ('true', True)]
        adt = None
    else:
        try:
            adt = get_datatype(info['argument'], wire)
        except Exception as e:   # noqa
            ctx.finding('describe:argument-not-rebuildable', sub, repr(e))
            return
        cat = specs.catalogue(A, 'wire', 0, rm.to_wire(A, rm.default_value(A)))
        probes = cat[::max(1, len(cat) // nprobes)]
    for label, x in probes:
        if A is not None and partial_without_prev(A, x, None, True):
            continue
        ctx.ev()
        r = kit.request(conn, ('do', spec, x))
        executed = r[0] == 'done'
        if adt is None:
            described_ok = x is None
            why = 'no-argument'
        else:
            try:
                adt.validate(adt.import_value(x))
                described_ok = True
            except Exception:   # noqa
                described_ok = False
            why = rm.status(A, x, 'wire')[1] or 'valid'
        if executed and c.get('result'):
            # the reply carries the result in transport form: importable with the described result datainfo, equal to what the
            # command function returned
            R = c['result']
            try:
                rdt = get_datatype(info['result'], wire)
                j = json.loads(json.dumps(r[2][0], allow_nan=False))
                got = rm.canon(rdt.validate(rdt.import_value(j)))
                if rm.denotes(R, c['resval'], None, got, 'drv'):
                    ctx.finding(f'command:result-differs:{R["k"]}', dict(sub, x=x), f'do {spec}: reply {r[2][0]!r} imports to {got!r}, the function returned {c["resval"]!r}')
                else:
                    ctx.ok('command-result-importable')
            except Exception as e:   # noqa
                ctx.finding(f'command:result-not-importable:{R["k"]}:{type(e).__name__}', dict(sub, x=x), f'do {spec}: reply {r[2]!r}: {e!r}'[:300])
        if executed != described_ok:
            ctx.finding(f'command:verdict-differs:{why}' + (f':{label}' if adt is None else ''), dict(sub, x=x),
                        f'do {spec} {x!r}: node {"executes" if executed else r[2][:2]}, described datainfo {"accepts" if described_ok else "rejects"}')
        else:
            ctx.ok('command-verdict-agrees')


def importable(ctx, sub, cdt, j, where, T):
    try:
        j = json.loads(json.dumps(j, allow_nan=False))
        cdt.validate(cdt.import_value(j))
        ctx.ok('emitted-value-importable')
    except Exception as e:   # noqa
        ctx.finding(f'emitted:{where}-not-importable:{T["k"]}:{type(e).__name__}', sub, f'{j!r}: {e!r}')


def attack_undescribed(ctx, case, kit, conn, mname, name, what, rec):
    """a hidden accessible can not be read, changed, executed or subscribed under any plausible name"""
    before = len(rec['calls'])
    for spec in (f'{mname}:{name}', f'{mname}:_{name}', f'{mname}:{name.upper()}'):
        for action, data in (('read', None), ('change', 0), ('do', None), ('activate', None), ('describe', None)):
            ctx.ev()
            r = kit.request(conn, (action, spec, data))
            sub = {'kind': 'node', 'classes': case['classes'], 'focus': f'{action} {spec}'}
            if not r[0].startswith('error_'):
                ctx.finding(f'undescribed:{what}:{action}-answered', sub, repr(r)[:200])
            elif r[2][0] not in ('NoSuchParameter', 'NoSuchCommand', 'NoSuchModule'):
                ctx.finding(f'undescribed:{what}:{action}:errorclass:{r[2][0]}', sub, repr(r)[:200])
            else:
                ctx.ok('undescribed-refused')
    if len(rec['calls']) != before:
        ctx.finding(f'undescribed:{what}:driver-reached', {'kind': 'node', 'classes': case['classes']}, repr(rec['calls'][before:]))
    kit.dispatcher.reset_connection(conn)


def attack_undescribed_module(ctx, case, kit, conn, mname, cs, rec):
    before = len(rec['calls'])
    names = [classgen.wire_name(p['name'], True) for p in cs['params']] + [classgen.wire_name(c['name'], True) for c in cs.get('cmds', [])]
    # names an accessible-level 'export' of the configuration would give (the module as a whole stays hidden)
    configured = [p['export'] for p in cs['params'] if isinstance(p.get('export'), str)]
    for wire in configured + names[:3] + ['value']:
        for action, data in (('read', None), ('change', 0), ('do', None), ('activate', None), ('describe', None)):
            ctx.ev()
            spec = f'{mname}:{wire}' if wire != 'value' or action != 'activate' else mname
            r = kit.request(conn, (action, spec, data))
            sub = {'kind': 'node', 'classes': case['classes'], 'focus': f'{action} {spec}'}
            if not r[0].startswith('error_'):
                ctx.finding(f'unexported-module:{action}-answered', sub, repr(r)[:200])
            elif r[2][0] not in ('NoSuchParameter', 'NoSuchCommand', 'NoSuchModule'):
                ctx.finding(f'unexported-module:{action}:errorclass:{r[2][0]}', sub, repr(r)[:200])
            else:
                ctx.ok('undescribed-refused')
    if len(rec['calls']) != before:
        ctx.finding('unexported-module:driver-reached', {'kind': 'node', 'classes': case['classes']}, repr(rec['calls'][before:]))
    kit.dispatcher.reset_connection(conn)


# ------------------------------------------------------------------------------------------
# units with $ and configured overrides

def units_case(ctx):
    from frappy.core import Writable, Parameter
    from frappy.params import Limit
    from frappy.datatypes import FloatRange, StructOf, ArrayOf, TupleOf, ScaledInteger

    class U(Writable):
        value = Parameter(datatype=FloatRange(0, 100, unit='K'))
        target = Parameter(datatype=FloatRange(0, 100, unit='$'))
        ramp = Parameter('ramp', FloatRange(0, 10, unit='$/min'), default=1, readonly=False)
        st = Parameter('struct', StructOf(a=FloatRange(unit='$'), b=ScaledInteger(0.1, 0, 5, unit='m$')), default={'a': 0, 'b': 0})
        arr = Parameter('arr', ArrayOf(TupleOf(FloatRange(unit='1/$'), FloatRange(unit='s')), 0, 3), default=[])
        hid = Parameter('hidden', FloatRange(), default=0, export=False, readonly=False)
        target_max = Limit()        # limit parameters take over the datatype (and the unit) of their base parameter
        ramp_limits = Limit()

        def write_target(self, v):
            return v
    for cfgunit, want in ((None, 'K'), ('mbar', 'mbar')):
        ctx.ev()
        cfg = {'u': {'cls': U, 'description': 'units'}}
        if cfgunit:
            cfg['u']['value'] = {'unit': cfgunit}
        kit = Kit(cfg)
        case = {'kind': 'units'}
        if kit.errors:
            ctx.finding('units:build', case, repr(kit.errors))
            continue
        text = json.dumps(kit.describe())
        acc = json.loads(text)['modules']['u']['accessibles']
        units = {'value': acc['value']['datainfo'].get('unit'), 'target': acc['target']['datainfo'].get('unit'),
                 'ramp': acc['ramp']['datainfo'].get('unit'), 'st.a': acc['_st']['datainfo']['members']['a'].get('unit'),
                 'st.b': acc['_st']['datainfo']['members']['b'].get('unit'),
                 'arr': acc['_arr']['datainfo']['members']['members'][0].get('unit'),
                 'target_max': acc.get('target_max', {}).get('datainfo', {}).get('unit'),
                 'ramp_limits': (acc.get('ramp_limits', acc.get('_ramp_limits', {})).get('datainfo', {}).get('members') or [{}])[0].get('unit')}
        exp = {'value': want, 'target': want, 'ramp': f'{want}/min', 'st.a': want, 'st.b': f'm{want}', 'arr': f'1/{want}',
               'target_max': want, 'ramp_limits': f'{want}/min'}
        ctx.nt(('units', cfgunit))
        if units != exp or '$' in text.replace('$/', '$/') and '"unit": "' in text and any('$' in str(u) for u in units.values()):
            ctx.finding('units:dollar-not-replaced', case, f'{units!r} vs {exp!r}')
        else:
            ctx.ok('units-replaced')


# ------------------------------------------------------------------------------------------
# shipped configurations

BEHAVIOURAL = ('demo', 'cryo', 'sim', 'test', 'ls370sim')


def shipped(ctx):
    import logging
    from pathlib import Path
    from frappy.lib import generalConfig
    from frappy.server import Server
    from frappy.config import load_config
    from frappy.logging import init_remote_logging
    from frappy.datatypes import get_datatype
    work = os.path.join(os.path.dirname(os.path.dirname(os.path.dirname(os.path.abspath(__file__)))), '.work', f'c06-{os.getpid()}')
    os.makedirs(work, exist_ok=True)
    built = []

    class SKit(Server):
        def __init__(self, node_cfg, module_cfg, log):   # pylint: disable=super-init-not-called
            self.log = log
            init_remote_logging(self.log)
            self.node_cfg = dict({'cls': 'frappy.protocol.dispatcher.Dispatcher'}, **node_cfg)
            self.module_cfg = module_cfg
            self._testonly = True
            self.name = 'kit'

    for n, f in enumerate(sorted(glob.glob(os.path.join(REPO, 'cfg', '*_cfg.py')))):
        name = os.path.basename(f)[:-7]
        generalConfig.testinit(confdir=[Path(REPO) / 'cfg'], logdir=Path(work), piddir=Path(work))
        log = logging.getLogger(f'shipped{n}')
        try:
            with contextlib.redirect_stderr(io.StringIO()), contextlib.redirect_stdout(io.StringIO()):
                cfg = load_config([f], log)
                node = cfg.pop('node')
                k = SKit({'equipment_id': node['equipment_id'], 'description': node['description']}, cfg, log)
                k._processCfg()
        except (SystemExit, Exception):   # noqa - needs hardware libraries or network: not available offline
            ctx.label('shipped:not-buildable-offline')
            continue
        built.append(name)
        ctx.label('shipped:built')
        case = {'kind': 'shipped', 'cfg': name}
        ctx.ev()
        ctx.nt(('shipped', name))
        d1 = k.dispatcher.handle_request(None, ('describe', None, None))[2]
        try:
            d = json.loads(json.dumps(d1, allow_nan=False))
        except Exception as e:   # noqa
            ctx.finding('shipped:describe-not-strict-json', case, repr(e))
            continue
        if d != json.loads(json.dumps(k.dispatcher.handle_request(None, ('describe', None, None))[2])):
            ctx.finding('shipped:describe-unstable', case, '')
        exported = [m for m, o in k.secnode.modules.items() if o.export]
        if sorted(d['modules']) != sorted(exported):
            ctx.finding('shipped:modules-differ', case, f'{sorted(d["modules"])} vs {sorted(exported)}')
        conn = FakeConn('s')
        for mname, md in d['modules'].items():
            mobj = k.secnode.modules[mname]
            want = [a.export for a in mobj.accessibles.values() if a.export]
            if list(md['accessibles']) != want:
                ctx.finding('shipped:accessibles-differ', dict(case, module=mname), f'{list(md["accessibles"])} vs {want}')
            mainunit = md['accessibles'].get('value', {}).get('datainfo', {}).get('unit')
            for aname, ad in md['accessibles'].items():
                ctx.ev()
                info = ad['datainfo']
                try:
                    cdt = get_datatype(info, aname)
                except Exception as e:   # noqa
                    ctx.finding('shipped:datainfo-not-rebuildable', dict(case, module=mname, acc=aname), repr(e))
                    continue
                if '$' in json.dumps(info) and mainunit and (name in BEHAVIOURAL or name.startswith('sim_')):
                    ctx.finding('shipped:dollar-unit-left', dict(case, module=mname, acc=aname), json.dumps(info)[:200])
                if info.get('type') == 'command':
                    continue
                pname = mobj.accessiblename2attr[aname]
                pobj = mobj.parameters[pname]
                if 'constant' in ad:
                    r = k.dispatcher.handle_request(conn, ('read', f'{mname}:{aname}', None)) if False else None
                if name in BEHAVIOURAL and not ad.get('readonly', True) and not hasattr(mobj, 'io') and 'constant' not in ad:
                    # boundary payloads: node verdict == described datainfo verdict (modules without hardware io only)
                    for x in shipped_probes(info):
                        ctx.ev()
                        try:
                            cdt.validate(cdt.import_value(x))
                            client_ok = True
                        except Exception:   # noqa
                            client_ok = False
                        if client_ok:
                            continue   # do not drive simulated hardware around; rejected payloads must be rejected by the node too
                        try:
                            k.dispatcher.handle_request(conn, ('change', f'{mname}:{aname}', x))
                            ctx.finding('shipped:node-accepts-what-datainfo-rejects', dict(case, module=mname, acc=aname, x=x), '')
                        except Exception:   # noqa
                            ctx.ok('shipped-reject-agrees')
        for m in k.secnode.modules.values():
            try:
                m.stopPollThread()
            except Exception:   # noqa
                pass
    ctx.extra['shipped_cfgs_built'] = built
    import shutil
    shutil.rmtree(work, ignore_errors=True)


def shipped_probes(info):
    t = info.get('type')
    if t in ('double', 'int', 'scaled'):
        hi = info.get('max')
        lo = info.get('min')
        out = ['x', None, [1], {'a': 1}]
        if t != 'double':
            out.append(0.5)
        if hi is not None and abs(hi) < 1e300:
            out.append(hi * 2 + 10 if t == 'double' else int(hi) * 2 + 10)
        if lo is not None and abs(lo) < 1e300:
            out.append(lo * 2 - 10 if t == 'double' else int(lo) * 2 - 10)
        return out
    if t == 'enum':
        codes = set(info['members'].values())
        return [max(codes) + 1, 'nonmember', 0.5, None, []]
    if t == 'bool':
        return [2, 'x', None, []]
    if t == 'string':
        return [1, None, [], 'x' * (info['maxchars'] + 1) if 'maxchars' in info else 5]
    return [None, 'x', 1] if t in ('array', 'tuple', 'struct') else []


def run_shard(ctx, shard):
    if shard['idx'] == 'shipped':
        shipped(ctx)
        units_case(ctx)
        return
    drive(node_case(), lambda case: check_node(ctx, case, shard['probes']), shard['n'], ctx.seed * 1000 + shard['idx'])


def run_case(ctx, case):
    if case['kind'] == 'node':
        check_node(ctx, case)
    elif case['kind'] == 'units':
        units_case(ctx)
    elif case['kind'] == 'shipped':
        shipped(ctx)
