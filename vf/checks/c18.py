"""C18 - linked parameters stay mutually consistent

(A) StructParam layouts: struct value and member parameters agree member by member
(B) FloatEnumParam: float == valuedict[index]; a write selects the closest allowed value
(C) limit parameters: never accepted outside the current limits; inverted limits refused
(D) HasOutputModule / HasControlledBy: at most one controller active, the output names it
"""
import json

from hypothesis import strategies as st

from vf import refmodel as rm
from vf.nodekit import Kit, FakeConn
from vf.runner import drive

PROPERTY = 'C18'
LEVEL = 'exploration'
RULE = ('Hypothesis draws (A) struct/member layouts (2-4 members of float/int/string/bool/enum type, with prefix, combined '
        'read_/write_<struct> or member-wise methods or none) (B) label sets for float-enum parameters (SI prefixes, explicit index/value '
        'tuples, gaps, unsorted values) (C) limit configurations (min, max, min+max, limits tuple) (D) 1-3 controllers on one output, each '
        'with a history of up to 30 operations issued by the client (change/read through the dispatcher) or by the driver (write_*, '
        'attribute assignment in the natural direction of the layout, hardware change + read). The invariant is evaluated after every '
        'operation; one evaluation = one operation. non-trivial: a history touching both a struct and one of its members, a float and '
        'its index, a moved limit and the limited parameter, or a hand-over between two controllers; distinct by (layout, history).')
ASSUMPTIONS = ['histories start after the start-up read round', 'driver-side attribute assignments only in the natural direction of the '
               'struct layout (the StructParam docstring asks to implement exactly one of the two method sets)']

N_EXAMPLES = {'quick': 800, 'thorough': 12000}
MEMBER_TYPES = ['double', 'int', 'string', 'bool', 'enum']


def shards(tier, seed):
    return [{'idx': i, 'n': N_EXAMPLES[tier], 'part': 'ABCD'[i % 4]} for i in range(16)]


def member_values(kind):
    return {'double': st.sampled_from([0.0, 1.5, -2.25, 100.0, 1e-3]), 'int': st.integers(-5, 5), 'string': st.sampled_from(['', 'a', 'xyz']),
            'bool': st.booleans(), 'enum': st.sampled_from([0, 1, 2])}[kind]


def member_dt(kind):
    from frappy.datatypes import FloatRange, IntRange, StringType, BoolType, EnumType
    return {'double': lambda: FloatRange(), 'int': lambda: IntRange(-10, 10), 'string': lambda: StringType(), 'bool': lambda: BoolType(),
            'enum': lambda: EnumType('e', a=0, b=1, c=2)}[kind]()


# -------------------------------------------------------------------------------------------- (A)

@st.composite
def struct_case(draw):
    n = draw(st.integers(2, 4))
    members = {f'm{i}': draw(st.sampled_from(MEMBER_TYPES)) for i in range(n)}
    layout = draw(st.sampled_from(['combined', 'memberwise', 'memberwise-partial', 'none']))
    prefix = draw(st.sampled_from(['', 'pid_', 'x']))
    ops = []
    names = list(members)
    for _ in range(draw(st.integers(1, 30))):
        kind = draw(st.sampled_from(['change-struct', 'change-member', 'read-struct', 'read-member', 'drv-write-struct', 'drv-write-member',
                                     'drv-assign', 'hw-change', 'drv-assign-struct', 'drv-assign-member']))
        mname = draw(st.sampled_from(names))
        if kind in ('change-struct', 'drv-write-struct', 'drv-assign-struct'):
            val = {k: draw(member_values(t)) for k, t in members.items()}
            ops.append({'op': kind, 'value': val})
        elif kind == 'drv-assign':
            if layout == 'combined':
                ops.append({'op': kind, 'value': {k: draw(member_values(t)) for k, t in members.items()}})
            else:
                ops.append({'op': kind, 'member': mname, 'value': draw(member_values(members[mname]))})
        elif kind in ('change-member', 'drv-write-member', 'hw-change', 'drv-assign-member'):
            ops.append({'op': kind, 'member': mname, 'value': draw(member_values(members[mname]))})
        else:
            ops.append({'op': kind, 'member': mname})
    return {'kind': 'struct', 'members': members, 'layout': layout, 'prefix': prefix, 'ops': ops,
            'guard': draw(st.sampled_from([None, None] + names))}


def check_struct(ctx, case):
    from frappy.core import Module, Parameter
    from frappy.extparams import StructParam
    members, layout, prefix = case['members'], case['layout'], case['prefix']
    hw = {}
    attrs = {}
    pnames = {m: prefix + m for m in members}
    attrs['st'] = StructParam('struct', {m: Parameter(f'member {m}', member_dt(t)) for m, t in members.items()}, prefix, readonly=False)
    defaults = {'double': 0.0, 'int': 0, 'string': '', 'bool': False, 'enum': 0}
    for m, t in members.items():
        hw[m] = defaults[t]
    if layout == 'combined':
        def read_st(self):
            return dict(hw)

        def write_st(self, value):
            hw.update({k: rm.canon(v) if not isinstance(rm.canon(v), tuple) else rm.canon(v)[1] for k, v in value.items()})
            return dict(hw)
        attrs['read_st'], attrs['write_st'] = read_st, write_st
    elif layout.startswith('memberwise'):
        for i, m in enumerate(members):
            if layout == 'memberwise-partial' and i % 2:
                continue

            def rf(self, m=m):
                return hw[m]

            def wf(self, value, m=m):
                v = rm.canon(value)
                hw[m] = v[1] if isinstance(v, tuple) else v
                return hw[m]
            attrs[f'read_{pnames[m]}'], attrs[f'write_{pnames[m]}'] = rf, wf
    GUARD = {'double': 100.0, 'int': 5, 'string': 'xyz', 'bool': True, 'enum': 2}
    guard = case.get('guard') if layout.startswith('memberwise') and case.get('guard') in members else None
    try:
        cls = type('S', (Module,), attrs)
        if guard:
            # a subclass refuses one value of one member by a check hook: no write, of the member or of the struct, gets it through
            from frappy.errors import RangeError as _RangeError

            def check_member(self, value, _g=GUARD[members[guard]]):
                v = rm.canon(value)
                if (v[1] if isinstance(v, tuple) else v) == _g:
                    raise _RangeError('this value is not allowed here')
            cls = type('S2', (cls,), {f'check_{pnames[guard]}': check_member})
    except Exception as e:   # noqa
        ctx.finding(f'struct:class-creation:{type(e).__name__}', case, repr(e))
        return
    kit = Kit({'s': {'cls': cls, 'description': 'struct module'}})
    if kit.errors:
        ctx.finding('struct:node-refused', case, repr(kit.errors)[:300])
        return
    mobj = kit.modules['s']
    conn = FakeConn('c')
    kit.request(conn, ('activate', None, None))
    # start-up read round
    mobj.read_st()
    for m in members:
        getattr(mobj, f'read_{pnames[m]}')()
    touched_struct = touched_member = tainted = False
    for n, op in enumerate(case['ops']):
        ctx.ev()
        sub = dict(case, ops=case['ops'][:n + 1])
        k = op['op']

        def plain(x):
            x = rm.canon(x)
            return x[1] if isinstance(x, tuple) else x
        forbidden = False
        gbefore = plain(getattr(mobj, pnames[guard])) if guard else None
        if guard and k in ('change-struct', 'drv-write-struct'):
            forbidden = plain(op['value'].get(guard)) == GUARD[members[guard]]
        elif guard and k in ('change-member', 'drv-write-member') and op.get('member') == guard:
            forbidden = plain(op['value']) == GUARD[members[guard]]
        try:
            if forbidden and k.startswith('drv-write'):
                try:
                    (mobj.write_st if k == 'drv-write-struct' else getattr(mobj, f'write_{pnames[guard]}'))(op['value'])
                except Exception:   # noqa - refused, as it has to be
                    pass
                touched_struct = True
            elif k == 'change-struct':
                kit.request(conn, ('change', 's:_st', op['value']))
                touched_struct = True
            elif k == 'change-member':
                kit.request(conn, ('change', f's:_{pnames[op["member"]]}', op['value']))
                touched_member = True
            elif k == 'read-struct':
                kit.request(conn, ('read', 's:_st', None))
            elif k == 'read-member':
                kit.request(conn, ('read', f's:_{pnames[op["member"]]}', None))
            elif k == 'drv-write-struct':
                mobj.write_st(op['value'])
                touched_struct = True
            elif k == 'drv-write-member':
                getattr(mobj, f'write_{pnames[op["member"]]}')(op['value'])
                touched_member = True
            elif k == 'drv-assign':
                if layout == 'combined':
                    mobj.st = op['value']
                    touched_struct = True
                else:
                    setattr(mobj, pnames[op['member']], op['value'])
                    touched_member = True
            elif k == 'drv-assign-struct':     # the driver updates the struct by assignment, whatever the layout
                mobj.st = op['value']
                touched_struct = True
            elif k == 'drv-assign-member':     # ... or one member
                setattr(mobj, pnames[op['member']], op['value'])
                touched_member = True
            elif k == 'hw-change':
                hw[op['member']] = op['value']
                if layout == 'combined' or layout == 'none':
                    mobj.read_st()
                else:
                    getattr(mobj, f'read_{pnames[op["member"]]}')()
        except Exception as e:   # noqa - driver side calls with valid values must not fail
            ctx.finding(f'struct:op-raises:{k}:{layout}:{type(e).__name__}', sub, repr(e)[:200])
            return
        if forbidden and plain(getattr(mobj, pnames[guard])) == GUARD[members[guard]] and gbefore != GUARD[members[guard]]:
            ctx.finding(f'struct:member-check-bypassed:{layout}:{k}', sub, f'{pnames[guard]} = {getattr(mobj, pnames[guard])!r} although its check hook refuses this value')
            return
        if forbidden:
            ctx.ok('member-check-enforced')
            if k in ('change-struct', 'drv-write-struct'):
                tainted = True      # a refused write of a struct may have written the members before the refused one (known family,
                #                     not asserted here): from now on only the check hook is looked at
            continue
        if tainted:
            continue
        stv = rm.canon(mobj.st)
        bad = [m for m in members if stv.get(m) != rm.canon(getattr(mobj, pnames[m]))]
        if bad:
            m = bad[0]
            ctx.finding(f'struct:cache-disagrees:{layout}:{k}', sub, f'st[{m}] = {stv.get(m)!r} but {pnames[m]} = {rm.canon(getattr(mobj, pnames[m]))!r}')
            return
        ctx.ok('struct-and-members-agree')
        # update stream: the last message of the struct and the last messages of the members agree
        last = {}
        for msg in conn.log:
            if msg[0] == 'update':
                last[msg[1]] = msg[2][0]
        if 's:_st' in last:
            for m in members:
                key = f's:_{pnames[m]}'
                if key in last and json.dumps(last['s:_st'].get(m)) != json.dumps(last[key]):
                    ctx.finding(f'struct:updates-disagree:{layout}:{k}', sub, f'last update of st has {m}={last["s:_st"].get(m)!r}, last update of {pnames[m]} is {last[key]!r}')
                    return
            ctx.ok('struct-updates-agree')
    if touched_struct and touched_member:
        ctx.nt(('struct', repr(case)))
    ctx.label(f'layout:{layout}')
    ctx.sample(case, every=97)


# -------------------------------------------------------------------------------------------- (B)

# SI prefixes -> decimal exponent (the table of the SI brochure, written independently of frappy's)
SI_EXP = {'q': -30, 'r': -27, 'y': -24, 'z': -21, 'a': -18, 'f': -15, 'p': -12, 'n': -9, 'u': -6, 'µ': -6, 'm': -3, '': 0,
          'k': 3, 'M': 6, 'G': 9, 'T': 12, 'P': 15, 'E': 18, 'Z': 21, 'Y': 24, 'R': 27, 'Q': 30}


@st.composite
def floatenum_case(draw):
    unit = draw(st.sampled_from(['V', 'A', '']))
    n = draw(st.integers(1, 6))
    labels, idx = [], 0
    used_idx, used_labels = set(), set()
    for _ in range(n):
        num = draw(st.sampled_from(['1', '2', '5', '20', '500', '0.5', '3.3']))
        pre = draw(st.sampled_from(['u', 'm', '', 'k'] * 3 + sorted(SI_EXP)))
        label = f'{num}{pre}{unit}'
        if label in used_labels:
            continue
        form = draw(st.sampled_from(['label', 'label', 'idx-label', 'label-value', 'idx-label-value']))
        gap = draw(st.sampled_from([0, 0, 1, 3]))
        idx += gap
        if idx in used_idx:
            idx = max(used_idx) + 1
        value = float(f'{num}e{SI_EXP[pre]}')
        if 'value' in form:
            value = draw(st.sampled_from([value, value * 1.2, 0.006, -1.0]))
        if form == 'label':
            if labels and gap:
                form = 'idx-label'
        if form == 'label':
            labels.append(label)
        elif form == 'idx-label':
            labels.append([idx, label])
        elif form == 'label-value':
            labels.append([label, value])
        else:
            labels.append([idx, label, value])
        if form in ('label', 'label-value'):
            idx = (max(used_idx) + 1) if used_idx and form != 'idx' and not gap else idx
        used_idx.add(idx)
        used_labels.add(label)
        idx += 1
    ops = []
    for _ in range(draw(st.integers(1, 25))):
        kind = draw(st.sampled_from(['change-float', 'change-float', 'change-idx', 'drv-write-idx', 'drv-assign-idx', 'read', 'drv-assign-float']))
        if kind == 'change-float':
            ops.append({'op': kind, 'x': draw(st.sampled_from([0.0, 1e-6, 6e-5, 0.0102, 0.5, 0.6, 1.0, 2.0, 19.0, 600.0, 1e4, -1.0, 0.0055, 3.3e-3]))})
        elif kind == 'read':
            ops.append({'op': kind})
        else:
            ops.append({'op': kind, 'i': draw(st.integers(0, 12))})
    # a start value from the configuration, for the float or for the index (position among the allowed ones)
    cfg = draw(st.sampled_from([None, None, 'float', 'idx']))
    return {'kind': 'floatenum', 'labels': labels, 'unit': unit, 'ops': ops, 'with_write_idx': draw(st.sampled_from([False, True, 'coerce'])),
            'cfg': cfg, 'cfg_pos': draw(st.integers(0, 5)), 'hide': draw(st.sampled_from([None, None, None, 'idx', 'float']))}


def check_floatenum(ctx, case):
    from frappy.core import Module
    from frappy.extparams import FloatEnumParam
    from frappy.errors import ProgrammingError
    attrs = {}
    try:
        attrs['fr'] = FloatEnumParam('float enum', [tuple(x) if isinstance(x, list) else x for x in case['labels']], case['unit'])
    except ProgrammingError:
        ctx.label('floatenum:labels-refused')
        return
    hwidx = []
    coerce = case['with_write_idx'] == 'coerce'
    if case['with_write_idx']:
        def write_fr_idx(self, value):
            hwidx.append(int(value))
            if coerce:       # the hardware ends up with another index than requested (clamps, reads back)
                return min(self.parameters['fr'].valuedict)
            return value
        attrs['write_fr_idx'] = write_fr_idx
    try:
        cls = type('F', (Module,), attrs)
    except Exception as e:   # noqa
        ctx.finding(f'floatenum:class-creation:{type(e).__name__}', case, repr(e))
        return
    modcfg = {'cls': cls, 'description': 'float enum module'}
    cvd = dict(attrs['fr'].valuedict)
    cidx = sorted(cvd)[case.get('cfg_pos', 0) % len(cvd)]
    if case.get('cfg') == 'float':
        modcfg['fr'] = {'value': cvd[cidx]}
    elif case.get('cfg') == 'idx':
        modcfg['fr_idx'] = {'value': cidx}
    if case.get('hide') in ('idx', 'float'):
        # one of the two linked parameters is hidden from the clients by the configuration: they stay linked
        key = 'fr_idx' if case['hide'] == 'idx' else 'fr'
        modcfg[key] = dict(modcfg.get(key, {}), export=False)
    kit = Kit({'f': modcfg})
    if kit.errors:
        ctx.finding('floatenum:node-refused' + (':cfg-' + case['cfg'] if case.get('cfg') else ''), case, repr(kit.errors)[:300])
        return
    mobj = kit.modules['f']
    vdict = dict(mobj.parameters['fr'].valuedict)
    if case.get('cfg'):
        # the configured start value is one of the allowed ones: float and index agree from the start
        idx0 = int(mobj.fr_idx)
        if idx0 in vdict and (mobj.fr != vdict[idx0] or rm.canon(mobj.parameters['fr'].value) != vdict[idx0]):
            ctx.finding(f'floatenum:float-differs-from-index:cfg-{case["cfg"]}', dict(case, ops=[]),
                        f'index {idx0} -> {vdict[idx0]}, float attribute {mobj.fr}, cached {mobj.parameters["fr"].value}')
            return
        if case['cfg'] == 'idx' and idx0 != cidx:
            ctx.finding('floatenum:configured-index-ignored', dict(case, ops=[]), f'configured {cidx}, index {idx0}')
            return
        ctx.ok('configured-start-value')
    lo, hi = min(vdict.values()), max(vdict.values())
    # the values belonging to the labels: '<number><SI prefix><unit>' unless a value is given explicitly
    want = []
    for ent in case['labels']:
        ent = [ent] if isinstance(ent, str) else list(ent)
        label = next(e for e in ent if isinstance(e, str))
        explicit = [e for e in ent[ent.index(label) + 1:] if isinstance(e, (int, float))]
        if explicit:
            want.append(float(explicit[0]))
        else:
            body = label[:len(label) - len(case['unit'])] if case['unit'] else label
            num = body.rstrip(''.join(k for k in SI_EXP if k))
            want.append(float(f'{num}e{SI_EXP[body[len(num):]]}'))
    if sorted(want) != sorted(vdict.values()) and not all(abs(a - b) <= 1e-12 * abs(b) for a, b in zip(sorted(want), sorted(vdict.values()))):
        ctx.finding('floatenum:label-value-wrong', case, f'labels {case["labels"]!r} unit {case["unit"]!r}: values {sorted(vdict.values())!r}, expected {sorted(want)!r}')
        return
    ctx.ok('label-values')
    conn = FakeConn('c')
    kit.request(conn, ('activate', None, None))
    did_float = did_idx = False
    for n, op in enumerate(case.get('ops', [])):
        ctx.ev()
        sub = dict(case, ops=case['ops'][:n + 1])
        k = op['op']
        if case.get('hide') == 'float' and k in ('change-float', 'read') or case.get('hide') == 'idx' and k == 'change-idx':
            continue      # (not reachable for a client)
        if k == 'change-float':
            x = op['x']
            r = kit.request(conn, ('change', 'f:_fr', x))
            did_float = True
            if r[0] == 'changed':
                got = r[2][0]
                best = min(abs(v - x) for v in vdict.values())
                if coerce:
                    if got != vdict[int(mobj.fr_idx)]:
                        ctx.finding('floatenum:reply-differs-from-index', sub, f'write {x}: reply {got}, index now {int(mobj.fr_idx)} -> {vdict[int(mobj.fr_idx)]}')
                        return
                elif abs(abs(got - x) - best) > 1e-12 * max(1.0, abs(x)):
                    ctx.finding('floatenum:not-closest-value', sub, f'write {x}: selected {got}, allowed values {sorted(vdict.values())}')
                    return
                ctx.ok('closest-value-selected')
            elif lo <= x <= hi:
                ctx.finding(f'floatenum:write-refused:{r[2][0]}', sub, f'{x} in [{lo}, {hi}] refused: {r[2][:2]}')
                return
        elif k == 'change-idx':
            kit.request(conn, ('change', 'f:_fr_idx', op['i']))
            did_idx = True
        elif k == 'drv-write-idx':
            if op['i'] in vdict:
                mobj.write_fr_idx(op['i'])
                did_idx = True
        elif k == 'drv-assign-idx':
            if op['i'] in vdict:
                mobj.fr_idx = op['i']
                did_idx = True
        elif k == 'drv-assign-float':
            # the driver updates the float parameter with one of the allowed values (e.g. read back from the hardware)
            mobj.fr = sorted(vdict.values())[op['i'] % len(vdict)]
            did_float = True
        else:
            kit.request(conn, ('read', 'f:_fr', None))
        idx = int(mobj.fr_idx)
        if idx not in vdict:
            if idx == 0 and 0 not in vdict and not (did_float or did_idx):
                continue     # initial index before anything was set (enum default)
            ctx.finding('floatenum:index-without-value', sub, f'index {idx}, values {vdict!r}')
            return
        if mobj.fr != vdict[idx] or rm.canon(mobj.parameters['fr'].value) != vdict[idx] and (did_float or did_idx):
            ctx.finding(f'floatenum:float-differs-from-index:{k}', sub, f'index {idx} -> {vdict[idx]}, float attribute {mobj.fr}, cached {mobj.parameters["fr"].value}')
            return
        ctx.ok('float-matches-index')
        last = {}
        for msg in conn.log:
            if msg[0] == 'update':
                last[msg[1]] = msg[2][0]
        if (did_float or did_idx) and 'f:_fr' in last and 'f:_fr_idx' in last and last['f:_fr'] != vdict.get(last['f:_fr_idx']):
            ctx.finding(f'floatenum:updates-disagree:{k}', sub, f'last updates: idx {last["f:_fr_idx"]}, float {last["f:_fr"]}')
            return
    if did_float and did_idx:
        ctx.nt(('floatenum', repr(case)))
    ctx.sample(case, every=97)


# -------------------------------------------------------------------------------------------- (C)

@st.composite
def limits_case(draw):
    # a module defining both <p>_limits and <p>_min/_max is not a supported combination (checkLimits looks at the pair only)
    kind = draw(st.sampled_from(['min', 'max', 'minmax', 'limits']))
    ops = []
    vals = [-50.0, -1.0, 0.0, 0.5, 1.0, 5.0, 10.0, 37.0, 99.0, 100.0, 101.0]
    for _ in range(draw(st.integers(1, 25))):
        what = draw(st.sampled_from(['target', 'target', 'min', 'max', 'limits', 'drv-target']))
        if what == 'limits':
            ops.append({'op': 'limits', 'value': [draw(st.sampled_from(vals)), draw(st.sampled_from(vals))]})
        else:
            ops.append({'op': what, 'value': draw(st.sampled_from(vals))})
    layout = draw(st.sampled_from(['same-class', 'limits-in-base', 'limits-in-subclass', 'limits-in-subclass+inherited-hook', 'limits-in-mixin']))
    return {'kind': 'limits', 'limits': kind, 'inherited': layout == 'limits-in-base', 'layout': layout, 'ops': ops}


def check_limits(ctx, case):
    from frappy.core import Writable, Parameter, FloatRange
    from frappy.params import Limit
    from frappy.errors import RangeError
    writes = []
    attrs = {'value': Parameter(datatype=FloatRange(0, 100)), 'target': Parameter(datatype=FloatRange(0, 100))}
    kind = case['limits']
    lim = {}
    if kind in ('min', 'minmax'):
        lim['target_min'] = Limit()
    if kind in ('max', 'minmax', 'limits+max'):
        lim['target_max'] = Limit()
    if kind in ('limits', 'limits+max'):
        lim['target_limits'] = Limit()

    def write_target(self, value):
        writes.append(float(value))
        return value
    layout = case.get('layout') or ('limits-in-base' if case.get('inherited') else 'same-class')
    FORBIDDEN = 37.0     # refused by the user written hook of the base class

    def check_target(self, value):
        if value == FORBIDDEN:
            raise RangeError('forbidden value')
    if layout == 'limits-in-base':
        base = type('LBase', (Writable,), dict(attrs, **lim))
        cls = type('L', (base,), {'write_target': write_target})
    elif layout == 'limits-in-subclass':
        base = type('LBase', (Writable,), dict(attrs, write_target=write_target))
        cls = type('L', (base,), dict(lim))
    elif layout == 'limits-in-subclass+inherited-hook':
        base = type('LBase', (Writable,), dict(attrs, write_target=write_target, check_target=check_target))
        cls = type('L', (base,), dict(lim))
    elif layout == 'limits-in-mixin':
        mixin = type('LimMixin', (), dict(lim))
        base = type('LBase', (Writable,), dict(attrs, write_target=write_target))
        cls = type('L', (mixin, base), {})
    else:
        cls = type('L', (Writable,), dict(attrs, write_target=write_target, **lim))
    hook = layout == 'limits-in-subclass+inherited-hook'
    kit = Kit({'l': {'cls': cls, 'description': 'limits module'}})
    if kit.errors:
        ctx.finding('limits:node-refused', case, repr(kit.errors)[:300])
        return
    mobj = kit.modules['l']
    conn = FakeConn('c')
    moved = False
    for n, op in enumerate(case['ops']):
        ctx.ev()
        sub = dict(case, ops=case['ops'][:n + 1])
        cur = {k: rm.canon(getattr(mobj, k)) for k in lim}
        if op['op'] in ('min', 'max'):
            name = f'target_{op["op"]}'
            if name in lim:
                r = kit.request(conn, ('change', f'l:{name}', op['value']))
                moved = moved or r[0] == 'changed'
            continue
        if op['op'] == 'limits':
            if 'target_limits' not in lim:
                continue
            lo, hi = op['value']
            r = kit.request(conn, ('change', 'l:target_limits', [lo, hi]))
            if lo > hi and r[0] == 'changed':
                ctx.finding('limits:inverted-pair-accepted', sub, f'change target_limits [{lo}, {hi}] -> {r[:1]}')
                return
            if lo <= hi and 0 <= lo and hi <= 100 and r[0] != 'changed':
                ctx.finding('limits:valid-pair-refused', sub, repr(r)[:200])
                return
            moved = moved or r[0] == 'changed'
            ctx.ok('limits-pair')
            continue
        x = op['value']
        lo = max([0.0] + [cur[k] for k in ('target_min',) if k in cur] + ([cur['target_limits'][0]] if 'target_limits' in cur else []))
        hi = min([100.0] + [cur[k] for k in ('target_max',) if k in cur] + ([cur['target_limits'][1]] if 'target_limits' in cur else []))
        before = len(writes)
        cache_before = float(mobj.target)
        if op['op'] == 'target':
            r = kit.request(conn, ('change', 'l:target', x))
            accepted = r[0] == 'changed'
            err = None if accepted else r[2][0]
        else:
            try:
                mobj.write_target(x)
                accepted, err = True, None
            except Exception as e:   # noqa
                accepted, err = False, type(e).__name__
        inside = lo <= x <= hi and not (hook and x == FORBIDDEN)
        if accepted and not inside:
            ctx.finding(f'limits:accepted-outside:{kind}', sub, f'target {x} accepted with limits {cur!r}')
            return
        if not accepted and inside:
            ctx.finding(f'limits:refused-inside:{kind}:{err}', sub, f'target {x} refused with limits {cur!r}')
            return
        if not accepted:
            if len(writes) != before or float(mobj.target) != cache_before:
                ctx.finding('limits:refused-but-driver-or-cache-touched', sub, f'{writes[before:]!r}, cache {mobj.target}')
                return
            if err not in ('RangeError',):
                ctx.finding(f'limits:wrong-error:{err}', sub, f'target {x} with limits {cur!r}')
                return
        ctx.ok('limits-respected')
    if moved:
        ctx.nt(('limits', repr(case)))
    ctx.label(f'limits:{kind}', f'limits-layout:{layout}')
    ctx.sample(case, every=97)


# -------------------------------------------------------------------------------------------- (D)

@st.composite
def control_case(draw):
    n = draw(st.integers(1, 3))
    nout = draw(st.sampled_from([1, 1, 2]))
    # which output each controller drives (None: a controller with fixed control, no output module configured)
    outs = [draw(st.sampled_from(list(range(nout)) * 3 + [None])) for _ in range(n)]
    ops = []
    names = [f'out{k}' if k else 'out' for k in range(nout)]
    for _ in range(draw(st.integers(1, 25))):
        who = draw(st.sampled_from(names + [f'c{i}' for i in range(n)] * 2))
        ops.append({'who': who, 'how': draw(st.sampled_from(['client', 'client', 'driver', 'push'])), 'value': draw(st.sampled_from([0.0, 1.0, 2.5]))})
    return {'kind': 'control', 'n': n, 'nout': nout, 'outs': outs, 'ops': ops,
            'order': draw(st.sampled_from(['out-first', 'out-last']))}


def check_control(ctx, case):
    from frappy.core import Writable
    from frappy.mixins import HasControlledBy, HasOutputModule
    switched = []
    n, nout = case['n'], case.get('nout', 1)
    outs = list(case.get('outs') or [0] * n)
    if len(outs) != n or any(o is not None and not (isinstance(o, int) and 0 <= o < nout) for o in outs) or n < 1:
        return
    outnames = [f'out{k}' if k else 'out' for k in range(nout)]
    if any(op['who'] not in outnames + [f'c{i}' for i in range(n)] for op in case['ops']):
        return

    class Out(HasControlledBy, Writable):
        def write_target(self, value):
            self.self_controlled()
            return value

    class Ctl(HasOutputModule, Writable):
        def write_target(self, value):
            self.activate_control()
            if self.output_module:
                self.output_module.update_target(self.name, value)
            return value

        def set_control_active(self, active):
            switched.append((self.name, bool(active)))
            super().set_control_active(active)
    cfg = {}
    if case['order'] == 'out-first':
        for name in outnames:
            cfg[name] = {'cls': Out, 'description': 'output'}
    for i in range(n):
        cfg[f'c{i}'] = {'cls': Ctl, 'description': f'controller {i}'}
        if outs[i] is not None:
            cfg[f'c{i}']['output_module'] = outnames[outs[i]]
    for name in outnames:
        cfg.setdefault(name, {'cls': Out, 'description': 'output'})
    kit = Kit(cfg)
    if kit.errors:
        ctx.finding('control:node-refused', case, repr(kit.errors)[:300])
        return
    conn = FakeConn('c')
    ctls = {f'c{i}': kit.modules[f'c{i}'] for i in range(n)}
    group = {name: [f'c{i}' for i in range(n) if outs[i] == k] for k, name in enumerate(outnames)}
    owner = {name: 'self' for name in outnames}     # model: who controls each output
    fixed_active = set()                            # controllers without output: active from their first write on
    handovers = 0
    ctx.label(f'control:outputs:{nout}', f'control:fixed:{sum(o is None for o in outs)}')
    for num, op in enumerate(case['ops']):
        ctx.ev()
        sub = dict(case, ops=case['ops'][:num + 1])
        active_before = {c for c, m in ctls.items() if m.control_active}
        mark = len(switched)
        try:
            if op['how'] == 'client':
                r = kit.request(conn, ('change', f'{op["who"]}:target', op['value']))
                if r[0] != 'changed':
                    ctx.finding(f'control:change-refused:{r[2][0]}', sub, repr(r)[:200])
                    return
            elif op['how'] == 'push':
                # a controller pushes a value to its output without taking over control (e.g. a regulation loop which
                # is still running although the module lost control): nobody's control state changes by that
                k = outs[int(op['who'][1:])] if op['who'] not in outnames else None
                if k is None:
                    continue
                kit.modules[outnames[k]].update_target(op['who'], op['value'])
            else:
                kit.modules[op['who']].write_target(op['value'])
        except Exception as e:   # noqa
            ctx.finding(f'control:op-raises:{type(e).__name__}', sub, repr(e)[:200])
            return
        who = op['who']
        if op['how'] == 'push':
            pass
        elif who in owner:
            owner[who] = 'self'
        elif outs[int(who[1:])] is None:
            fixed_active.add(who)
        else:
            owner[outnames[outs[int(who[1:])]]] = who
        for oname in outnames:
            out = kit.modules[oname]
            active = [c for c in group[oname] if ctls[c].control_active]
            cb = out.controlled_by
            cbname = getattr(cb, 'name', str(cb))
            want = owner[oname]
            other = '' if oname == (who if who in owner else outnames[outs[int(who[1:])]] if outs[int(who[1:])] is not None else None) \
                else ':other-output'
            if len(active) > 1:
                ctx.finding('control:two-controllers-active' + other, sub, f'{oname}: {active!r}')
                return
            if (active or ['self'])[0] != want:
                ctx.finding('control:wrong-controller-active' + other, sub,
                            f'after {who} wrote its target: {oname} has active {active!r}, expected {want!r}')
                return
            if cbname != want:
                ctx.finding('control:output-names-wrong-controller' + other, sub,
                            f'{oname}.controlled_by = {cbname!r}, active {active!r}, expected {want!r}')
                return
            # the description of the output lists exactly its own controllers in the enum of controlled_by
            members = out.parameters['controlled_by'].datatype.export_datatype()['members']
            if set(members) != {'self'} | set(group[oname]):
                ctx.finding('control:enum-members', sub, f'{oname}: {members!r}')
                return
        for c in fixed_active:
            if not ctls[c].control_active:
                ctx.finding('control:fixed-controller-switched-off', sub, f'{c} has no output module, but lost control after {who} wrote')
                return
        # taking over control switches the previous controller off through set_control_active(False)
        now = {c for c, m in ctls.items() if m.control_active}
        for prev in active_before - now:
            handovers += 1
            if (prev, False) not in switched[mark:]:
                ctx.finding('control:previous-controller-not-switched-off', sub, f'{prev} lost control without set_control_active(False): {switched[mark:]!r}')
                return
        ctx.ok('single-controller')
    if handovers:
        ctx.nt(('control', repr(case)))
    ctx.sample(case, every=97)


def run_shard(ctx, shard):
    strat, fn = {'A': (struct_case, check_struct), 'B': (floatenum_case, check_floatenum), 'C': (limits_case, check_limits),
                 'D': (control_case, check_control)}[shard['part']]
    drive(strat(), lambda case: fn(ctx, case), shard['n'], ctx.seed * 1000 + shard['idx'])


def run_case(ctx, case):
    {'struct': check_struct, 'floatenum': check_floatenum, 'limits': check_limits, 'control': check_control}[case['kind']](ctx, case)
