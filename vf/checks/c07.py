"""C07 - one well-formed reply per request line, for any bytes and any chunking

the real TCPRequestHandler on a fake socket in front of a fixed small node; request lines from a
grammar of all SECoP requests, mutated at byte level; the same stream in many segmentations.
"""
import os
import json
import math
import types
import itertools

from hypothesis import strategies as st

from vf.nodekit import Kit, FakeSock, FakeTcpServer
from vf.runner import drive

PROPERTY = 'C07'
LEVEL = 'exploration'
RULE = ('Hypothesis draws 1-8 request lines from a grammar of all SECoP requests on a fixed node (valid and invalid specifiers and '
        'payloads) and mutates them at byte level (invalid UTF-8, broken JSON, missing/extra fields, double spaces, CR/LF variants, empty '
        'lines, NUL, very long lines, unknown and handler-colliding action names); the byte stream is delivered in up to 8 segmentations '
        '(one chunk, 1-byte chunks, every single cut for short streams, random cuts); streams up to 12 bytes from a small alphabet are '
        'enumerated with ALL segmentations. One evaluation = one (stream, segmentation). non-trivial: >= 1 mutated or invalid line and '
        '>= 2 chunks; distinct by (stream, cuts).')
ASSUMPTIONS = ['the socket is a fake: recv returns the scripted chunks, sendall records', 'time stamps in replies are produced by a virtual clock',
               'log and update lines are asynchronous messages and are removed before replies are matched to requests']

N_EXAMPLES = {'quick': 120, 'thorough': 5000}
MAXSHORT = 10
ERRCLASSES = {'InternalError', 'ProtocolError', 'NoSuchModule', 'NotImplemented', 'NoSuchParameter', 'NoSuchCommand', 'ReadOnly', 'RangeError', 'BadJSON',
              'WrongType', 'CommandFailed', 'CommandRunning', 'CommunicationFailed', 'IsBusy', 'IsError', 'Disabled', 'Impossible', 'ReadFailed',
              'OutOfRange', 'HardwareError', 'TimeoutError'}
REPLY = {'describe': 'describing', 'activate': 'active', 'deactivate': 'inactive', 'do': 'done', 'change': 'changed', 'read': 'reply',
         'ping': 'pong', 'help': 'helping', 'logging': 'logging', '*IDN?': 'ISSE&SINE2020,SECoP,V2019-09-16,v1.0'}
ASYNC = ('update', 'error_update', 'log')


def shards(tier, seed):
    return [{'idx': i, 'n': N_EXAMPLES[tier], 'part': 'gen'} for i in range(13)] + [{'idx': 13, 'part': 'short'}, {'idx': 14, 'part': 'codec', 'n': N_EXAMPLES[tier] * 10},
                                                                                    {'idx': 15, 'part': 'twoconn', 'n': N_EXAMPLES[tier]},
                                                                                    {'idx': 16, 'part': 'interleave', 'n': N_EXAMPLES[tier] // 2}, {'idx': 17, 'part': 'interleave', 'n': N_EXAMPLES[tier] // 2}]


_CLASSES = None


class Node:
    """fixed node; the clock is virtual so that outputs of different segmentations can be compared byte by byte"""

    def __init__(self):
        import frappy.protocol.dispatcher as disp
        import frappy.modulebase as mb
        from frappy.core import Writable, Parameter, Command, FloatRange, IntRange, StringType, StructOf, ArrayOf, TupleOf, BLOBType
        self.t = [1_700_000_000.0]

        def now():
            self.t[0] += 0.001
            return self.t[0]
        self.patches = [(disp, 'currenttime', disp.currenttime), (mb, 'time', mb.time)]
        disp.currenttime = now
        mb.time = types.SimpleNamespace(time=now)
        global _CLASSES
        self.kit = None
        if _CLASSES is not None:
            M, N2, state = _CLASSES
            state['mode'] = 0
            self.kit = Kit({'m': {'cls': M, 'description': 'main module'}, 'n': {'cls': N2, 'description': 'other module'}})
            return
        state = {'mode': 0}

        class M(Writable):
            value = Parameter(datatype=FloatRange(unit='K'))
            rmode = Parameter('what read_value returns', IntRange(0, 3), default=0, readonly=False)
            s = Parameter('string', StringType(isUTF8=True), default='', readonly=False)
            st = Parameter('struct', StructOf(a=IntRange(0, 5), b=FloatRange(0, 1)), default={'a': 1, 'b': 0.5}, readonly=False)
            arr = Parameter('array', ArrayOf(IntRange(0, 9), 0, 5), default=[1, 2], readonly=False)
            blob = Parameter('blob', BLOBType(0, 8), default=b'', readonly=False)
            hidden = Parameter('hidden', IntRange(), default=0, export=False, readonly=False)
            const = Parameter('constant', IntRange(), constant=3)

            def read_value(self):
                return [1.5, math.nan, math.inf, -math.inf][state['mode']]

            def write_rmode(self, value):
                state['mode'] = int(value)
                return value

            def write_target(self, value):
                return value

            @Command(TupleOf(IntRange(), StringType()), result=IntRange())
            def cmd(self, a, b):
                """command with tuple argument"""
                return a

            @Command()
            def go(self):
                """command without argument"""

        class N2(Writable):
            pass
        _CLASSES = (M, N2, state)
        self.kit = Kit({'m': {'cls': M, 'description': 'main module'}, 'n': {'cls': N2, 'description': 'other module'}})
        assert not self.kit.errors, self.kit.errors

    def close(self):
        for mod, name, orig in self.patches:
            setattr(mod, name, orig)

    def run(self, chunks, timeout_at=None):
        from frappy.protocol.interface.tcp import TCPRequestHandler
        from vf.nodekit import quiet_handler
        sock = FakeSock(chunks)
        sock.timeout_at = timeout_at
        quiet_handler()
        TCPRequestHandler(sock, ('127.0.0.1', 1), FakeTcpServer(self.kit))
        return sock


VALID_LINES = ['*IDN?', 'describe', 'describe .', 'describe m', 'activate', 'activate m', 'activate m:value', 'deactivate', 'deactivate m', 'deactivate m:value',
               'read m:value', 'read m', 'read m:_s', 'read m:_const', 'read n:status', 'change m:target 5', 'change m 1.5', 'change m:_s "x y"',
               'change m:_st {"a": 2}', 'change m:_arr [1, 2, 3]', 'change m:_blob "AAEC"', 'change m:_rmode 1', 'change m:_rmode 0', 'do m:_cmd [1, "a b"]',
               'do m:go', 'ping', 'ping 123', 'ping x y', 'help', 'logging . "off"', 'logging m "debug"', 'change m:_s "äöü€"', 'change m:pollinterval 1',
               # JSON escapes: a lone surrogate (no valid UTF-8 form - must stay escaped in every reply and update), a surrogate pair, controls
               'change m:_s "a\\ud800b"', 'change m:_s "\\ud83d\\ude00"', 'change m:_s "\\u00e4\\n\\t\\"\\\\"', 'do m:_cmd [1, "\\udfff"]',
               'read m:_s']
INVALID_LINES = ['read', 'read nomod:value', 'read m:_nix', 'read m:_hidden', 'read m:value 1', 'change m:target', 'change m:target "5"', 'change m:_const 3',
                 'change m:_arr 5', 'change m:_st {"zz": 1}', 'change m:value 1', 'do m', 'do m:_cmd', 'do m:_cmd 5', 'do m:go 1', 'do m:_nix', 'do m:target',
                 'activate nomod', 'activate m:_nix', 'activate m:_cmd', 'activate m 1', 'deactivate nomod', 'describe nomod', 'describe m:_nix',
                 'ping 1 2', 'logging', 'logging nomod "debug"', 'logging m "nonsense"', 'logging m 5', 'change m:_rmode 1.5', 'change', 'do',
                 'update m:value [1, {}]', 'reply m:value [1, {}]', 'error_read m:value ["X", "y", {}]', 'pong 1', 'active', 'describing . {}',
                 '_ident', '_ident x', 'request', 'handle_request', 'help x', '__class__', 'log', 'ident', '*idn?', 'IDN?', '*IDN? x', 'READ m:value', 'Describe',
                 'set_all_log_levels', 'unsubscribe x', 'subscribe', 'broadcast_event x 1', 'send_log_msg', 'x' * 2000, 'read ' + 'm' * 70000,
                 'change m:_s "' + 'y' * 3000 + '"', 'read m:value\x00', '\x00', 'read\tm:value', 'read  m:value', ' read m:value', 'read m:value ',
                 'change m:target NaN', 'change m:target Infinity', 'change m:target 1e999', 'change m:target [', 'change m:target {"a":', 'change m:target 5 6',
                 'change m:target 5}', 'ping "x', 'read m:vàlue', 'réad m:value', '{}', '[]', '"read"', '5', 'read m:value:x', 'read :value', 'read m:', 'read :',
                 'change m:_st null', 'change m:_st {"a": null}', 'do m:_cmd null', 'do m:_cmd [null, null]',
                 # JSON nested deeper than any recursion limit (balanced or not)
                 'change m:_arr ' + '[' * 20000, 'change m:_st ' + '{"a":' * 10000 + '1' + '}' * 10000, 'do m:_cmd ' + '[' * 20000 + ']' * 20000]


@st.composite
def mutate(draw, line):
    b = line.encode('utf-8')
    kind = draw(st.sampled_from(['none', 'none', 'none', 'cut', 'insert', 'flip', 'dupspace', 'cr', 'upper', 'bad-utf8', 'append-json', 'strip-json']))
    if kind == 'cut' and len(b) > 1:
        i = draw(st.integers(1, len(b) - 1))
        b = b[:i]
    elif kind == 'insert':
        i = draw(st.integers(0, len(b)))
        b = b[:i] + draw(st.sampled_from([b'\x00', b'\xff', b'\xc3', b' ', b'"', b'{', b'\\', b'\t', b'\r', b'\xe2\x82'])) + b[i:]
    elif kind == 'flip' and b:
        i = draw(st.integers(0, len(b) - 1))
        b = b[:i] + bytes([b[i] ^ (1 << draw(st.integers(0, 7)))]) + b[i + 1:]
    elif kind == 'dupspace':
        b = b.replace(b' ', b'  ', 1)
    elif kind == 'cr':
        b = b + b'\r'
    elif kind == 'upper':
        b = b.upper()
    elif kind == 'bad-utf8':
        b = b + draw(st.sampled_from([b' \xff\xfe', b'\x80', b' "\xed\xa0\x80"']))
    elif kind == 'append-json':
        b = b + draw(st.sampled_from([b' 1', b' null', b' {"a": [1, 2, {"b": null}]}', b' NaN', b' -Infinity', b' "x', b' 1e400']))
    elif kind == 'strip-json':
        b = b.split(b' ')[0]
    return b.replace(b'\n', b' '), kind


@st.composite
def stream_case(draw):
    lines = []
    mutated = False
    for _ in range(draw(st.integers(1, 8))):
        src = draw(st.sampled_from(['valid', 'valid', 'invalid', 'invalid', 'empty']))
        if src == 'empty':
            lines.append(draw(st.sampled_from([b'', b' ', b'\r', b'  \t'])))
            continue
        line = draw(st.sampled_from(VALID_LINES if src == 'valid' else INVALID_LINES))
        b, kind = draw(mutate(line))
        mutated = mutated or kind != 'none' or src == 'invalid'
        lines.append(b)
    tail = draw(st.sampled_from([b'', b'', b'read m:val', b'\xff']))      # incomplete last line: no reply expected
    if draw(st.integers(0, 3)) == 0:
        # a burst of requests filling the read buffer of the handler exactly (a multiple of 1024 bytes)
        total = sum(len(x) + 1 for x in lines)
        need = (-total - 6) % 1024
        lines.append(b'ping ' + b'f' * need)
        tail = b''
    cuts = [sorted(set(draw(st.lists(st.integers(1, 4000), max_size=6)))) for _ in range(3)]
    return {'kind': 'stream', 'lines': [x.hex() for x in lines], 'tail': tail.hex(), 'cuts': cuts, 'mutated': mutated,
            'send_timeout': draw(st.sampled_from([None, None, 0, 1, 2, 3]))}


def split_line(raw):
    """reference parse of a request line -> (action, specifier, data-text) or None for help"""
    raw = raw.strip()
    if raw == b'':
        return None
    text = raw.decode('utf-8')    # may raise UnicodeDecodeError
    parts = text.split(' ', 2) + ['', '']
    return parts[0], parts[1] or None, parts[2]


def parse_out(out):
    """-> list of (action, specifier, data, problems)"""
    res = []
    for line in out.split(b'\n')[:-1]:
        problems = []
        try:
            text = line.decode('utf-8')
        except UnicodeDecodeError:
            res.append(('?', None, None, ['not-utf8']))
            continue
        parts = text.split(' ', 2) + ['', '']
        data = None
        if parts[2] != '':
            try:
                data = json.loads(parts[2], parse_constant=_reject)
            except ValueError as e:
                problems.append('non-strict-json' if 'non strict' in str(e) else 'broken-json')
        res.append((parts[0], parts[1] or None, data, problems))
    if not out.endswith(b'\n') and out:
        res.append(('?', None, None, ['unterminated-line']))
    return res


def _reject(token):
    raise ValueError(f'non strict JSON token {token}')


def segmentations(stream, cuts, limit=12):
    segs = [[stream]]
    if len(stream) > 1:
        segs.append([stream[i:i + 1] for i in range(len(stream))])
        segs.append([stream[i:i + 1024] for i in range(0, len(stream), 1024)])
    for cs in cuts:
        cs = [c % len(stream) for c in cs if stream] if stream else []
        cs = sorted(set(c for c in cs if 0 < c < len(stream)))
        if cs:
            segs.append([stream[a:b] for a, b in zip([0] + cs, cs + [len(stream)])])
    if 1 < len(stream) <= 40:
        for i in range(1, len(stream), 3):
            segs.append([stream[:i], stream[i:]])
    uniq = []
    for s in segs:
        s = [c for c in s if c]
        if s not in uniq:
            uniq.append(s)
    uniq = uniq[:limit]
    # the peer pauses (longer than the socket time-out of the handler) after every segment: None = silence.
    # in blocks of the read size of the handler, in one piece, and at the drawn cuts
    if stream:
        paused = [[stream, None]]
        if len(stream) > 1024:
            paused.append([x for i in range(0, len(stream), 1024) for x in (stream[i:i + 1024], None)])
        if len(uniq) > 3:
            paused.append([x for c in uniq[3] for x in (c, None)])
        uniq += [s for s in paused if s not in uniq]
    return uniq


def judge(ctx, case, lines, out, label=''):
    """the replies to the complete request lines, in order"""
    replies = parse_out(out)
    sub = dict(case)
    for r in replies:
        for p in r[3]:
            ctx.finding(f'output:{p}:{r[0] if r[0] in REPLY.values() or r[0].startswith("error_") or r[0] in ASYNC else "?"}', sub, repr(r)[:200])
    activated = logging_on = False
    k = 0
    for n, raw in enumerate(lines):
        try:
            req = split_line(raw)
        except UnicodeDecodeError:
            req = 'undecodable'
        # collect what belongs to this request: skip asynchronous lines
        mine = []
        ishelp = req is None or (req != 'undecodable' and req[0] == 'help')
        lossy = None
        if req == 'undecodable':     # what the node can make of it (action and specifier, undecodable bytes replaced)
            parts = raw.strip().decode('utf-8', 'replace').split(' ', 2) + ['', '']
            lossy = (parts[0], parts[1] or None)
        while k < len(replies):
            r = replies[k]
            if lossy and r[0] == 'error_' + lossy[0] and r[1] == lossy[1] and r[0] in ASYNC:
                mine.append(r)      # the refusal of an undecodable line whose action looks like an asynchronous message
                k += 1
                break
            if req not in (None, 'undecodable') and r[0] == 'error_' + req[0] and r[1] == req[1]:
                mine.append(r)      # the error reply to a request whose action looks like an asynchronous message
                k += 1
                break
            if r[0] in ASYNC and (activated or logging_on or (req not in (None, 'undecodable') and req[0] in ('activate', 'logging', 'change', 'do', 'read'))):
                k += 1
                if not (activated or logging_on or req[0] in ('activate', 'logging')):
                    ctx.finding('reply:async-message-without-subscription', sub, repr(r)[:200])
                continue
            if r[0] == '_' and ishelp:
                k += 1
                continue
            mine.append(r)
            k += 1
            break
        where = dict(sub, focus=raw[:80].decode('latin-1'))
        if not mine:
            ctx.finding('reply:missing', where, f'no reply to line {n}: {raw[:60]!r}; output so far {replies[-3:]!r}')
            return
        action, spec, data, _ = mine[0]
        if req is None:
            if action != 'helping':
                ctx.finding('reply:empty-line-not-answered-with-help', where, repr(mine[0])[:200])
            continue
        if req == 'undecodable':
            if not action.startswith('error_'):
                ctx.finding('reply:undecodable-line-not-refused', where, repr(mine[0])[:200])
            elif not (isinstance(data, list) and data and data[0] in ERRCLASSES):
                ctx.finding('reply:error-report-malformed', where, repr(mine[0])[:200])
            else:
                ctx.ok('undecodable-refused')
            continue
        ract, rspec, rdata = req
        good = REPLY.get(ract)
        if action == good and good is not None:
            if ract == '*IDN?':
                ctx.ok('reply-action')
            elif spec != rspec and not (ract == 'describe' and spec == '.' and rspec is None):
                ctx.finding(f'reply:specifier-not-echoed:{ract}', where, f'request {ract} {rspec!r} -> {action} {spec!r}')
            else:
                ctx.ok('reply-action')
            if ract == 'activate':
                activated = True
            if ract == 'logging':
                logging_on = True
        elif action == 'error_' + ract:
            if spec != rspec:
                ctx.finding(f'reply:specifier-not-echoed:error', where, f'request {ract} {rspec!r} -> {action} {spec!r}')
            if not (isinstance(data, list) and len(data) == 3 and data[0] in ERRCLASSES and isinstance(data[1], str) and isinstance(data[2], dict)):
                ctx.finding('reply:error-report-malformed', where, repr(mine[0])[:200])
            else:
                ctx.ok('error-reply')
        else:
            what = 'non-request-action-answered' if good is None else 'wrong-action'
            ctx.finding(f'reply:{what}:{ract if good or ract in ("_ident", "request", "log") else "other"}', where, f'request {raw[:60]!r} -> {mine[0]!r}'[:300])
    rest = [r for r in replies[k:] if r[0] not in ASYNC]
    if rest:
        ctx.finding('reply:superfluous', sub, repr(rest[:3])[:300])


def check_stream(ctx, case):
    lines = [bytes.fromhex(x) for x in case['lines']]
    tail = bytes.fromhex(case.get('tail', ''))
    if any(b'\n' in x for x in lines) or b'\n' in tail:
        return
    stream = b''.join(x + b'\n' for x in lines) + tail
    node = Node()
    try:
        outs = []
        segs = segmentations(stream, case.get('cuts', []))
        for seg in segs:
            ctx.ev()
            n = Node() if outs else node
            try:
                sock = n.run(list(seg) + [b'ping sentinel\n'])
            finally:
                if n is not node:
                    n.close()
            out = sock.out
            # (4) the sentinel ping appended after the stream is answered: the handler survived
            marker = b'pong sentinel '
            idx = out.rfind(marker)
            if tail or idx < 0:
                if not tail and idx < 0:
                    ctx.finding('handler:sentinel-not-answered', case, repr(out[-200:]))
                    return
                body = out if idx < 0 else out[:idx]
                if tail:
                    # the incomplete tail + sentinel form one (garbage) line: exactly one more reply, not checked further
                    body = out[:out.rstrip(b'\n').rfind(b'\n') + 1]
            else:
                body = out[:idx]
            outs.append(body)
            if len(seg) >= 2 and case.get('mutated'):
                ctx.nt((stream, tuple(-1 if c is None else len(c) for c in seg)))
            if None in seg:
                ctx.label('segmentation:with-pauses' + (':buffer-filled-exactly' if any(c and len(c) % 1024 == 0 for c in seg) else ''))
        # (3) identical output for every segmentation
        for seg, body in zip(segs[1:], outs[1:]):
            if body != outs[0]:
                i = len(os.path.commonprefix([body, outs[0]]))
                ctx.finding('segmentation:output-differs' + (':with-pauses' if None in seg else ''),
                            dict(case, cuts=[list(itertools.accumulate(len(c) for c in seg[:-1] if c is not None))[:2000]]),
                            f'chunks {[None if c is None else len(c) for c in seg][:12]}: ...{body[max(0, i - 30):i + 40]!r} vs one chunk ...{outs[0][max(0, i - 30):i + 40]!r}')
                break
        else:
            ctx.ok('segmentation-independent')
        judge(ctx, case, lines, outs[0])
        if case.get('send_timeout') is not None and outs[0]:
            # the peer stops reading: a send times out after a part of a line went out. nothing may follow on this connection
            # (the next message would be glued to the fragment)
            ctx.ev()
            n2 = Node()
            try:
                sock2 = n2.run([stream, b'ping sentinel\n'], timeout_at=case['send_timeout'])
            finally:
                n2.close()
            cut = getattr(sock2, 'cut_at', None)
            if cut is None:
                ctx.label('send-timeout:not-reached')
            elif len(sock2.out) > cut:
                ctx.finding('send-timeout:output-continues-after-a-cut-line', case, f'{sock2.out[max(0, cut - 40):cut + 60]!r}')
            else:
                ctx.ok('send-timeout-ends-connection')
        ctx.sample({'lines': [x[:60].decode('latin-1') for x in lines], 'segmentations': len(segs), 'output': outs[0][:300].decode('latin-1')}, every=199)
    finally:
        node.close()


def short_streams(ctx):
    """all streams up to 3 tokens from a small alphabet, ALL segmentations of each (exhaustive)"""
    tokens = [b'ping\n', b'ping 1\n', b'\n', b'x\n', b'read m\n', b'\xff\n', b'do m\n', b'*IDN?\n', b'help\n', b'a b c\n', b' \n', b'\r\n']
    count = 0
    for n in (1, 2):
        for combo in itertools.product(tokens, repeat=n):
            stream = b''.join(combo)
            if len(stream) > MAXSHORT:
                continue
            lines = stream.split(b'\n')[:-1]
            outs = []
            for mask in range(1 << (len(stream) - 1)):
                cuts = [i + 1 for i in range(len(stream) - 1) if mask >> i & 1]
                seg = [stream[a:b] for a, b in zip([0] + cuts, cuts + [len(stream)])]
                ctx.ev()
                node = Node()
                try:
                    out = node.run(seg).out
                finally:
                    node.close()
                outs.append(out)
                if len(seg) >= 2:
                    ctx.nt((stream, mask))
                if out != outs[0]:
                    ctx.finding('segmentation:output-differs', {'kind': 'stream', 'lines': [x.hex() for x in lines], 'tail': '', 'cuts': [cuts], 'mutated': True},
                                f'{stream!r} cut at {cuts}')
                    break
            judge(ctx, {'kind': 'stream', 'lines': [x.hex() for x in lines], 'tail': '', 'cuts': [], 'mutated': True}, lines, outs[0])
            count += 1
    ctx.extra['exhaustive'] = True
    ctx.extra['short_streams_all_segmentations'] = count


# ----------------------------------------------------------------------------------------------
# codec: encode/decode are mutually inverse

JSONV = st.recursive(st.one_of(st.none(), st.booleans(), st.integers(-10 ** 12, 10 ** 12), st.floats(allow_nan=False, allow_infinity=False),
                               st.text(max_size=12)), lambda ch: st.one_of(st.lists(ch, max_size=3), st.dictionaries(st.text(max_size=4), ch, max_size=3)), max_leaves=8)
TOKEN = st.text(st.characters(blacklist_categories=('Cs', 'Zs', 'Cc', 'Zl', 'Zp'), blacklist_characters=' '), min_size=1, max_size=12)


@st.composite
def triple(draw):
    action = draw(st.one_of(st.sampled_from(list(REPLY) + ['update', 'error_read', 'changed']), TOKEN))
    spec = draw(st.one_of(st.none(), TOKEN, st.just('m:_p')))
    data = draw(st.one_of(st.none(), JSONV))
    return {'kind': 'triple', 'action': action, 'spec': spec, 'data': data}


def check_triple(ctx, case):
    from frappy.protocol.interface import decode_msg, encode_msg_frame
    ctx.ev()
    t = (case['action'], case['spec'], case['data'])
    try:
        frame = encode_msg_frame(*t)
        back = decode_msg(frame)
    except Exception as e:   # noqa
        ctx.finding(f'codec:raises:{type(e).__name__}', case, repr(e))
        return
    if case['spec'] is not None and case['data'] is not None or case['data'] is None:
        ctx.nt(('triple', repr(t)))
    want = t
    if case['spec'] is None and case['data'] is not None:
        want = (case['action'], None, case['data'])
    if back != want and json.dumps(back, sort_keys=True) != json.dumps(want, sort_keys=True):
        ctx.finding('codec:decode-encode-differs', case, f'{t!r} -> {frame!r} -> {back!r}')
    elif not frame.endswith(b'\n') or frame.count(b'\n') != 1:
        ctx.finding('codec:frame-not-one-line', case, repr(frame))
    elif encode_msg_frame(*back) != frame:
        ctx.finding('codec:not-canonical', case, repr(frame))
    else:
        ctx.ok('codec-inverse')


# ----------------------------------------------------------------------------------------------
# two connections: B's log contains only answers to B

@st.composite
def twoconn_case(draw):
    a = [draw(st.sampled_from(VALID_LINES + INVALID_LINES[:40])) for _ in range(draw(st.integers(1, 6)))]
    b = [draw(st.sampled_from(['ping b1', 'read n:status', 'describe', 'ping b2', 'read m:_const'])) for _ in range(draw(st.integers(1, 4)))]
    return {'kind': 'twoconn', 'a': a, 'b': b}


def check_twoconn(ctx, case):
    """B is served alone and then again after A has sent anything: B's replies to state-independent requests are the same,
    and nothing addressed to A shows up at B"""
    ctx.ev()
    node = Node()
    try:
        alone = node.run([(x + '\n').encode() for x in case['b']]).out
    finally:
        node.close()
    node = Node()
    try:
        node.run([(x + '\n').encode('utf-8') for x in case['a']])
        after = node.run([(x + '\n').encode() for x in case['b']]).out
    finally:
        node.close()
    ctx.nt(('twoconn', tuple(case['a']), tuple(case['b'])))

    def norm(out):
        res = []
        for r in parse_out(out):
            d = r[2]
            if isinstance(d, list) and len(d) == 2 and isinstance(d[1], dict):
                d = [d[0], {}]
            res.append((r[0], r[1], json.dumps(d, sort_keys=True)))
        return res
    changed_state = any(x.startswith(('change m:_rmode', 'change m:pollinterval', 'change m:_s', 'change n')) for x in case['a'])
    if norm(alone) != norm(after) and not changed_state:
        ctx.finding('isolation:answers-to-other-connection-changed', case, f'{norm(alone)!r} vs {norm(after)!r}'[:400])
    elif len(parse_out(after)) != len(case['b']):
        ctx.finding('isolation:foreign-lines-on-connection', case, repr(parse_out(after))[:300])
    else:
        ctx.ok('connections-isolated')


INTERLEAVE_FIXED = [
    {'conns': [[['activate', None, 0], ['help', None, 0], ['ping', None, 0]]],
     'drivers': [[['assign', 'm0', 'a', 0], ['assign', 'm0', 'a', 0], ['assign', 'm0', 'b', 0], ['assign', 'm0', 'a', 0]]]},
    {'conns': [[['activate', 'm0:_a', 0], ['idn', None, 0], ['activate', 'm0', 0], ['help', None, 0]], [['activate', None, 0], ['help', None, 0]]],
     'drivers': [[['assign', 'm0', 'a', 0], ['error', 'm0', 'b', 0], ['assign', 'm0', 'a', 0]]]},
    {'conns': [[['activate', None, 0], ['describe', None, 0], ['ping', None, 0]]], 'long_description': True,
     'drivers': [[['assign', 'm0', 'a', 0], ['assign', 'm0', 'b', 0], ['assign', 'm0', 'a', 0]]]},
]


def interleave_systematic(ctx):
    """every schedule with one forced switch (to each of two other threads) at every decision point of two fixed scenarios"""
    from vf.checks import c08
    for sc in INTERLEAVE_FIXED:
        case = dict(sc, kind='interleave', schedule=[])
        steps = c08.run_scenario(dict(case, kind='scenario'))['sched'].steps
        for step in range(1, steps + 1):
            for k in (1, 2):
                check_interleave(ctx, dict(case, preempt={str(step): k}))
    ctx.extra['interleave_one_preemption_complete'] = True


def check_interleave(ctx, case):
    """asynchronous messages never split another line: connections under the deterministic scheduler of C08 (activated, asking
    for multi-line help and other replies while driver threads announce updates; sendall delivers in portions)"""
    from vf.checks import c08
    ctx.ev()
    pre = case.get('preempt')
    out = c08.run_scenario(dict({k: v for k, v in case.items() if k != 'preempt'}, kind='scenario'), {int(k): v for k, v in pre.items()} if pre else None)
    if out['error'] is not None:
        return      # scheduling problems are C08's business
    nasync = 0
    for name, sent in out['logs'].items():
        msgs = c08.parse(sent)
        nasync += sum(1 for m in msgs if m[1] in ('update', 'error_update'))
        for step, action, spec, data in msgs:
            if action == '?split-line':
                ctx.finding('async:line-split-by-other-message', dict(case, kind='interleave'), f'{name}: {data[:120]!r}')
                return
    if nasync and any(item[0] in ('help', 'describe') for script in case['conns'] for item in script):
        ctx.nt(('interleave', out['sched'].trace_hash()))
    ctx.ok('no-line-split')


@st.composite
def interleave_case(draw):
    conns = []
    for _ in range(draw(st.integers(1, 2))):
        script = [['activate', draw(st.sampled_from([None, None, 'm0', 'm0:_a'])), 0]]
        for _ in range(draw(st.integers(1, 4))):
            script.append([draw(st.sampled_from(['help', 'help', 'ping', 'idn', 'activate', 'describe', 'describe'])), None, draw(st.sampled_from([0, 0, 0.5]))])
        conns.append(script)
    drivers = [[[draw(st.sampled_from(['assign', 'assign', 'read', 'error'])), 'm0', draw(st.sampled_from(['a', 'a', 'b'])), draw(st.sampled_from([0, 0, 0, 0.5]))]
                for _ in range(draw(st.integers(3, 10)))] for _ in range(draw(st.integers(1, 2)))]
    return {'kind': 'interleave', 'conns': conns, 'drivers': drivers, 'schedule': draw(st.lists(st.integers(0, 3), min_size=20, max_size=200)),
            'long_description': draw(st.booleans())}     # the reply to 'describe' is a line of more than 8 kB


def run_shard(ctx, shard):
    if shard['part'] == 'interleave':
        if shard['idx'] == 16:
            interleave_systematic(ctx)
            return
        drive(interleave_case(), lambda case: check_interleave(ctx, case), shard['n'], ctx.seed * 1000 + shard['idx'])
        return
    if shard['part'] == 'gen':
        drive(stream_case(), lambda case: check_stream(ctx, case), shard['n'], ctx.seed * 1000 + shard['idx'])
    elif shard['part'] == 'short':
        short_streams(ctx)
    elif shard['part'] == 'codec':
        drive(triple(), lambda case: check_triple(ctx, case), shard['n'], ctx.seed * 1000 + shard['idx'])
    else:
        drive(twoconn_case(), lambda case: check_twoconn(ctx, case), shard['n'], ctx.seed * 1000 + shard['idx'])


def run_case(ctx, case):
    {'stream': check_stream, 'triple': check_triple, 'twoconn': check_twoconn, 'interleave': check_interleave,
     'scenario': check_interleave}[case['kind']](ctx, case)
