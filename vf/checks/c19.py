"""C19 - discovery responder: bounded well-formed answers, unkillable by datagrams

the real UDPListener on a fake datagram socket (frappy.protocol.discovery.socket is re-bound)
"""
import json
import types

from hypothesis import strategies as st

from vf.runner import drive

PROPERTY = 'C19'
LEVEL = 'exploration'
RULE = ('(a) identities: equipment id x description drawn from ASCII, 2-4 byte code points, characters needing JSON escapes '
        '(quote, backslash, control characters), with total lengths swept byte by byte across the 508 limit, x interface lists '
        '(tcp/ws mixes, several tcp ports); every built message is checked. (b) datagram sequences: valid requests, other JSON '
        'values (numbers, null, strings containing SECoP, lists, objects without/with wrong SECoP), invalid UTF-8, empty, oversized, '
        'each sequence followed by a valid request. One evaluation = one message built or one datagram handled. non-trivial: the '
        'JSON form of the description crosses the limit, or >= 1 hostile datagram precedes a valid one; distinct by case.')
ASSUMPTIONS = ['socket layer replaced by a deterministic fake: OS level truncation of datagrams is modelled as recvfrom(n) returning the first n bytes']

N_EXAMPLES = {'quick': 2000, 'thorough': 40000}
LIMIT = 508


def shards(tier, seed):
    return [{'idx': i, 'n': N_EXAMPLES[tier]} for i in range(14)] + [{'idx': 'sweep'}, {'idx': 'sweep2'}]


class FakeSocketModule(types.SimpleNamespace):
    pass


class FakeUdp:
    def __init__(self, mod):
        self.mod = mod
        self.sent = []
        self.script = []
        self.bound = None

    def setsockopt(self, *a):
        pass

    def bind(self, addr):
        self.bound = addr

    def sendto(self, data, addr):
        if addr in getattr(self, 'unreachable', ()) or (addr[0] == '255.255.255.255' and getattr(self.mod, 'no_broadcast_route', False)):
            # the answer can not be sent (a datagram from source port 0, no route back, ...)
            raise OSError(22, 'Invalid argument')
        self.sent.append((data, addr))

    def recvfrom(self, n):
        if not self.script:
            raise self.mod.error('closed')
        data, addr = self.script.pop(0)
        self.mod.current = len(self.sent)
        self.mod.marks.append(len(self.sent))
        return data[:n], addr

    def close(self):
        pass

    def shutdown(self, *a):
        pass


def make_listener(eid, desc, ifaces, broadcast=False):
    import frappy.protocol.discovery as disc
    import socket as real

    class Err(OSError):
        pass
    mod = FakeSocketModule(AF_INET=real.AF_INET, SOCK_DGRAM=real.SOCK_DGRAM, SOL_SOCKET=real.SOL_SOCKET,
                           SO_REUSEADDR=real.SO_REUSEADDR, SO_REUSEPORT=getattr(real, 'SO_REUSEPORT', 15),
                           SO_BROADCAST=real.SO_BROADCAST, error=OSError, marks=[], current=0)
    socks = []

    def socket(*a):
        s = FakeUdp(mod)
        socks.append(s)
        return s
    mod.socket = socket
    disc.socket = mod
    disc.get_version = lambda *a, **k: 'verif'
    log = types.SimpleNamespace(debug=lambda *a: None, warn=lambda *a: None, warning=lambda *a: None, info=lambda *a: None,
                                error=lambda *a: None)
    try:
        lst = disc.UDPListener(eid, desc, ifaces, log, startup_broadcast=broadcast)
    finally:
        disc.socket = real
    return lst, socks[0], mod


def expected_ports(ifaces):
    return [int(i.split('://')[1]) for i in ifaces if i.startswith('tcp')]


def check_announcement(ctx, case):
    """the start-up broadcast: every datagram at most 508 bytes of UTF-8 JSON with a port listened on, one per TCP port"""
    eid, desc, ifaces = case['eid'], case['desc'], case['ifaces']
    try:
        lst, sock, mod = make_listener(eid, desc, ifaces, broadcast=True)
    except Exception:   # noqa - reported by check_identity
        return
    sock.script = []
    ctx.ev()
    try:
        lst.run()
    except BaseException as e:   # noqa
        ctx.finding(f'announce:run-raises:{type(e).__name__}', case, repr(e)[:200])
        return
    ports = expected_ports(ifaces)
    got = []
    for msg, addr in sock.sent:
        if len(msg) > LIMIT:
            ctx.finding('announce:longer-than-508' + ('' if lst.is_enabled else ':responder-disabled'), case, f'{len(msg)} bytes to {addr!r}')
            return
        try:
            obj = json.loads(msg.decode('utf-8'))
            got.append(obj['port'])
            if obj.get('SECoP') != 'node' or obj.get('equipment_id') != eid:
                raise ValueError('identity')
        except Exception as e:   # noqa
            ctx.finding(f'announce:malformed:{type(e).__name__}', case, repr(msg[:80]))
            return
    if lst.is_enabled and got != ports:
        ctx.finding('announce:not-once-per-port', case, f'{got!r} vs {ports!r}')
    else:
        ctx.ok('announcement-well-formed')


def check_identity(ctx, case):
    check_announcement(ctx, case)
    eid, desc, ifaces = case['eid'], case['desc'], case['ifaces']
    ctx.ev()
    try:
        lst, sock, mod = make_listener(eid, desc, ifaces)
    except Exception as e:   # noqa
        ctx.finding(f'identity:constructor-raises:{type(e).__name__}', case, repr(e))
        return None
    ports = expected_ports(ifaces)
    base = len(json.dumps({'SECoP': 'node', 'port': 65535, 'equipment_id': eid, 'firmware': 'FRAPPY verif', 'description': ''},
                          ensure_ascii=False, separators=(',', ':')).encode('utf-8'))
    full = len(json.dumps({'SECoP': 'node', 'port': 65535, 'equipment_id': eid, 'firmware': 'FRAPPY verif', 'description': desc},
                          ensure_ascii=False, separators=(',', ':')).encode('utf-8'))
    crossing = base <= LIMIT < full
    if crossing or base > LIMIT:
        ctx.nt(('id', eid, desc, tuple(ifaces)))
    ctx.label('fits' if full <= LIMIT else 'identity-too-long' if base > LIMIT else 'description-truncated')
    ctx.sample({'equipment_id': eid[:40], 'len_eid': len(eid), 'description': desc[:40], 'len_desc': len(desc), 'ifaces': ifaces,
                'json_len_full': full, 'json_len_without_description': base}, every=499)
    if base > LIMIT:
        if lst.is_enabled:
            ctx.finding('identity:enabled-although-identity-does-not-fit', case, f'base {base}')
        else:
            ctx.ok('disabled-when-identity-too-long')
        return lst, sock, mod
    if not lst.is_enabled:
        ctx.finding('identity:disabled-although-identity-fits', case, f'identity alone needs {base} bytes, with description {full}')
        return lst, sock, mod
    for port in ports or [65535]:
        ctx.ev()
        msg = lst._getMessage(port)
        sub = dict(case, port=port)
        if len(msg) > LIMIT:
            ctx.finding('message:longer-than-508', sub, f'{len(msg)} bytes')
            continue
        try:
            obj = json.loads(msg.decode('utf-8'))
        except Exception as e:   # noqa
            ctx.finding(f'message:not-utf8-json:{type(e).__name__}', sub, repr(msg[-40:]))
            continue
        if not isinstance(obj, dict) or obj.get('SECoP') != 'node' or obj.get('equipment_id') != eid or obj.get('port') != port \
                or not str(obj.get('firmware', '')).startswith('FRAPPY'):
            ctx.finding('message:identity-fields', sub, repr(obj)[:200])
            continue
        d = obj.get('description')
        if not isinstance(d, str) or not desc.startswith(d):
            ctx.finding('message:description-not-a-prefix', sub, repr(d)[-60:])
        elif full <= LIMIT and d != desc:
            ctx.finding('message:description-truncated-although-it-fits', sub, f'{len(d)} of {len(desc)} characters')
        else:
            ctx.ok('message-well-formed')
    return lst, sock, mod


VALID = b'{"SECoP": "discover"}'
HOSTILE = [b'5', b'null', b'true', b'"SECoP"', b'"x SECoP discover"', b'[]', b'["SECoP"]', b'["SECoP", "discover"]', b'{}', b'{"SECoP": "node"}',
           b'{"SECoP": 5}', b'{"SECoP": null}', b'{"secop": "discover"}', b'{"SECoP": ["discover"]}', b'\xff\xfe', b'\xc3', b'', b' ',
           b'{"SECoP": "discover"', b'{"SECoP": "discover"}x', b'\x00', b'{"SECoP": "discover", "a": "' + b'x' * 1100 + b'"}',
           b'x' * 2000, b'NaN', b'-Infinity', '{"SECoP": "discover"}'.encode('utf-16'), '{"SECoP": "discover"}'.encode('utf-32'),
           '{"SECoP": "discover"}'.encode('utf-16-le'), b'\xef\xbb\xbf{"SECoP": "discover"}', b'{"SECoP": "discover", "a": "\xed\xa0\x80"}', b'{"SECoP": "discover", "SECoP": "x"}', b'1e999', b'{"a":{"SECoP":"discover"}}']
ALSO_VALID = [b'{"SECoP": "discover", "padding": "' + b'x' * 600 + b'"}', b' {"SECoP":"discover"} ', b'{"SECoP": "discover", "extra": [1, 2]}', b'{"x": "SECoP", "SECoP": "discover"}',
              b'\xef\xbb\xbf{"SECoP": "discover"}'[3:], b'{"SECoP": "x", "SECoP": "discover"}']


def is_request(data):
    """reference: a datagram is a discovery request iff its first 1024 bytes are a JSON object with SECoP == 'discover'"""
    try:
        obj = json.loads(data[:1024].decode('utf-8'))
    except ValueError:
        return False
    return isinstance(obj, dict) and obj.get('SECoP') == 'discover'


def check_sequence(ctx, case):
    res = check_identity(ctx, {'kind': 'identity', 'eid': case['eid'], 'desc': case['desc'], 'ifaces': case['ifaces']})
    if res is None:
        return
    lst, sock, mod = res
    if not lst.is_enabled:
        return
    if case.get('no_broadcast_route'):
        # the node announces itself at start-up, but the host has no route for the broadcast (only the loopback interface is
        # up, ...): sending fails - the requests arriving later are to be answered nevertheless
        try:
            lst, sock, mod = make_listener(case['eid'], case['desc'], case['ifaces'], broadcast=True)
        except Exception:   # noqa
            return
        mod.no_broadcast_route = True
    ports = expected_ports(case['ifaces'])
    dgrams = [(d, ('10.0.0.%d' % (i % 250 + 1), 4000 + i)) for i, d in enumerate(case['datagrams'])]
    unreachable = {i for i in case.get('unreachable', []) if isinstance(i, int) and 0 <= i < len(dgrams)}
    for i in unreachable:
        dgrams[i] = (dgrams[i][0], (dgrams[i][1][0], 0))
    sock.unreachable = {dgrams[i][1] for i in unreachable}
    dgrams.append((VALID, ('10.9.9.9', 9999)))
    sock.script = list(dgrams)
    mod.marks.clear()
    if any(not is_request(d) for d, _ in dgrams[:-1]):
        ctx.nt(('seq', case['eid'], tuple(case['datagrams'])))
    died = None
    try:
        lst.run()
    except BaseException as e:   # noqa - the responder loop ended with an exception: the thread would be dead
        died = e
    marks = mod.marks + [len(sock.sent)]
    for i, (data, addr) in enumerate(dgrams):
        ctx.ev()
        sub = {'kind': 'sequence', 'eid': case['eid'], 'desc': case['desc'], 'ifaces': case['ifaces'], 'datagrams': case['datagrams'][:i + 1], 'unreachable': case.get('unreachable', []),
               'no_broadcast_route': bool(case.get('no_broadcast_route'))}
        if i >= len(mod.marks):
            cause = dgrams[len(mod.marks) - 1][0] if mod.marks else b''
            ctx.finding(f'responder-killed:{type(died).__name__ if died else "stopped"}', dict(sub, datagrams=case['datagrams'][:len(mod.marks)]),
                        f'after datagram {cause[:60]!r}: {died!r}; later requests are not answered')
            return
        answers = sock.sent[marks[i]:marks[i + 1]]
        if i in unreachable:
            # nothing can be delivered to this sender; what counts is that the later requests are still answered
            ctx.ok('unreachable-sender-survived')
            continue
        if is_request(data):
            want = [(p, addr) for p in ports]
            got = []
            for m, a in answers:
                try:
                    got.append((json.loads(m.decode('utf-8')).get('port'), a))
                except Exception:   # noqa
                    got.append((None, a))
            if got != want:
                ctx.finding('request:not-answered-once-per-port', sub, f'{got!r} vs {want!r}')
            else:
                ctx.ok('request-answered')
        elif answers:
            ctx.finding('non-request:answered', sub, f'{data[:60]!r} -> {len(answers)} answers')
        else:
            ctx.ok('non-request-ignored')


TEXTS = st.one_of(
    st.text('abcXYZ 09_-', max_size=60),
    st.text('äöüπ€', max_size=40),
    st.text('😀𝄞', max_size=30),
    st.text('"\\\n\t\x01\x1f/', max_size=40),
    st.text(st.characters(blacklist_categories=('Cs',)), max_size=40),
)


@st.composite
def identity_case(draw):
    unit = draw(st.sampled_from(['a', 'ä', '€', '😀', '"', '\\', '\x01', '\n', 'ab"', 'π"']))
    eid = draw(TEXTS)
    if draw(st.integers(0, 5)) == 0:
        eid = eid + 'e' * draw(st.integers(380, 470))
    # aim the total length around the limit
    target = draw(st.integers(330, 560))
    reps = max(0, (target - 90 - len(eid.encode('utf-8'))) // max(1, len(json.dumps(unit, ensure_ascii=False).encode('utf-8')) - 2))
    desc = draw(TEXTS) + unit * (reps + draw(st.integers(-3, 3)) if reps > 3 else reps) + draw(st.sampled_from(['', 'z', 'ü', '😀', '"']))
    ifaces = draw(st.lists(st.sampled_from(['tcp://10767', 'tcp://5000', 'ws://8080', 'tcp://65535', 'tcp://1']), min_size=1, max_size=4, unique=True))
    return {'kind': 'identity', 'eid': eid, 'desc': desc, 'ifaces': ifaces}


@st.composite
def sequence_case(draw):
    ifaces = draw(st.lists(st.sampled_from(['tcp://10767', 'tcp://5000', 'ws://8080']), min_size=1, max_size=3, unique=True))
    dg = draw(st.lists(st.one_of(st.sampled_from(HOSTILE), st.sampled_from(ALSO_VALID), st.just(VALID), st.binary(max_size=30),
                                 st.text('{}[]":, SECoPdiscover01', max_size=30).map(lambda s: s.encode())), min_size=0, max_size=6))
    unreachable = sorted(draw(st.sets(st.integers(0, max(0, len(dg) - 1)), max_size=2))) if dg and draw(st.integers(0, 3)) == 0 else []
    return {'kind': 'sequence', 'eid': draw(st.sampled_from(['eq', 'node.example.org', 'ä'])), 'desc': draw(st.sampled_from(['', 'a node', 'x' * 600])),
            'ifaces': ifaces, 'datagrams': [d.hex() for d in dg], 'unreachable': unreachable, 'no_broadcast_route': draw(st.integers(0, 5)) == 0}


def run_shard(ctx, shard):
    if shard['idx'] == 'sweep':
        # byte by byte across the limit for each unit character
        for unit in ('a', 'ä', '€', '😀', '"', '\x01', '\\n'):
            for n in range(380, 470):
                check_identity(ctx, {'kind': 'identity', 'eid': 'eq', 'desc': unit * (n // max(1, len(unit.encode()))) + 'tail', 'ifaces': ['tcp://10767']})
        for n in range(400, 440):
            for desc in ('', 'd', '"' * 30, 'x' * 100):
                check_identity(ctx, {'kind': 'identity', 'eid': 'e' * n, 'desc': desc, 'ifaces': ['tcp://1']})
        ctx.extra['exhaustive_sweep'] = 'description lengths 380..469 x 7 unit characters; equipment id lengths 400..439 x 4 descriptions'
        return
    if shard['idx'] == 'sweep2':
        for h in HOSTILE + ALSO_VALID:
            for pre in ([], [VALID], [b'5']):
                run_case(ctx, {'kind': 'sequence', 'eid': 'eq', 'desc': 'd', 'ifaces': ['tcp://10767', 'tcp://2'],
                               'datagrams': [x.hex() for x in pre + [h]]})
            run_case(ctx, {'kind': 'sequence', 'eid': 'eq', 'desc': 'd', 'ifaces': ['tcp://10767', 'tcp://2'],
                           'datagrams': [VALID.hex(), h.hex()], 'unreachable': [0]})
            run_case(ctx, {'kind': 'sequence', 'eid': 'eq', 'desc': 'd', 'ifaces': ['tcp://10767', 'tcp://2'],
                           'datagrams': [h.hex(), VALID.hex()], 'no_broadcast_route': True})
        return
    if shard['idx'] % 2:
        drive(identity_case(), lambda case: check_identity(ctx, case), shard['n'], ctx.seed * 1000 + shard['idx'])
    else:
        drive(sequence_case(), lambda case: run_case(ctx, case), shard['n'], ctx.seed * 1000 + shard['idx'])


def run_case(ctx, case):
    if case['kind'] == 'identity':
        check_identity(ctx, case)
    else:
        case = dict(case, datagrams=[bytes.fromhex(d) if isinstance(d, str) else d for d in case['datagrams']])
        check_sequence(ctx, case)
