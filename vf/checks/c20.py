"""C20 - logging: exact per-connection routing, rotation keeps the newest files

(a) real Dispatcher + modules with real loggers under a RemoteLogHandler, fake connections; table model
(b) real LogfileHandler in generated log directories, virtual date (mlzlog.time is re-bound)
"""
import re
import os
import time
import shutil
import logging
import datetime

from hypothesis import strategies as st

from vf.nodekit import Kit, FakeConn
from vf.runner import drive, VERIF

PROPERTY = 'C20'
LEVEL = 'exploration'
RULE = ('(a) histories of 1-25 operations from {logging <module|.|none> <level> (names in any case, numbers, invalid names and JSON '
        'kinds), emit(module, level in debug/comlog/info/warning/error/critical/custom), *IDN?, disconnect} on 1-3 connections and '
        '2-3 modules; a table model (module, connection) -> level predicts every delivery. (b) log directories with any set of dated '
        'files of the handler, foreign files and sub-directories, retention 0..5, 1-3 consecutive rollovers on a virtual calendar. '
        'One evaluation = one operation / one rollover. non-trivial: (a) >= 2 connections at different levels and a reset in the '
        'history, (b) more than N dated files plus a foreign entry; distinct by case.')
ASSUMPTIONS = ['records are emitted through the module loggers (logging.Logger.log), as driver code does',
               'the calendar seen by mlzlog (time.strftime/localtime/time) is virtual; the file system is real (per-case temp dir)']

N_EXAMPLES = {'quick': 800, 'thorough': 15000}
NAMES = {'debug': 10, 'comlog': 15, 'info': 20, 'warning': 30, 'error': 40, 'off': 99}
EMIT_LEVELS = [10, 15, 20, 30, 40, 50, 25, 45]


def shards(tier, seed):
    return [{'idx': i, 'n': N_EXAMPLES[tier], 'part': 'route' if i < 10 else 'rotate'} for i in range(16)]


def parse_level(level):
    """reference: valid level -> number, else None"""
    if isinstance(level, str):
        return NAMES.get(level.lower())
    if isinstance(level, bool):
        return None
    if isinstance(level, (int, float)) and level in NAMES.values():
        return int(level)
    return None


@st.composite
def route_case(draw):
    nmods = draw(st.integers(2, 3))
    nconn = draw(st.integers(1, 3))
    hidden = draw(st.sampled_from([False, False, False, 'first', 'last']))      # the node has a module which is not exported: nobody can subscribe to its log
    ops = []
    levels = ['debug', 'info', 'warning', 'error', 'off', 'comlog', 'DEBUG', 'Info', 'OFF', 10, 20, 30, 40, 99, 15,
              'nonsense', '', 5, None, True, 1.5, [], {'a': 1}, 'warn', 'critical', 50, 0, -1, 20.0]
    for _ in range(draw(st.integers(1, 25))):
        kind = draw(st.sampled_from(['logging', 'logging', 'emit', 'emit', 'emit', 'idn', 'disconnect']))
        c = draw(st.integers(0, nconn - 1))
        if kind == 'logging':
            mod = draw(st.sampled_from([f'm{i}' for i in range(nmods)] + ['.', None, 'nomod', 'M0'] + (['hid', 'hid', '.'] if hidden else [])))
            ops.append({'op': 'logging', 'conn': c, 'mod': mod, 'level': draw(st.sampled_from(levels))})
        elif kind == 'emit':
            ops.append({'op': 'emit', 'mod': 'hid' if hidden and draw(st.integers(0, 3)) == 0 else f'm{draw(st.integers(0, nmods - 1))}',
                        'levelno': draw(st.sampled_from(EMIT_LEVELS)), 'malformed': draw(st.integers(0, 7)) == 0})
        else:
            ops.append({'op': kind, 'conn': c})
    return {'kind': 'route', 'nmods': nmods, 'nconn': nconn, 'hidden': hidden, 'ops': ops}


def check_route(ctx, case):
    from frappy.core import Module
    logging.disable(logging.NOTSET)
    try:
        _check_route(ctx, case, Module)
    finally:
        logging.disable(logging.CRITICAL)


def _check_route(ctx, case, Module):
    classes = [type(f'L{i}', (Module,), {}) for i in range(case['nmods'])]
    cfg = {f'm{i}': {'cls': c, 'description': 'logging module'} for i, c in enumerate(classes)}
    if case.get('hidden'):
        hid = {'cls': type('Hidden', (Module,), {}), 'description': 'not exported', 'export': False}
        # (its place in the configuration: before or after the exported modules)
        cfg = dict({'hid': hid}, **cfg) if case['hidden'] == 'first' else dict(cfg, hid=hid)
    elif any(op.get('mod') == 'hid' for op in case['ops']):
        return
    kit = Kit(cfg)
    kit.log.setLevel(logging.DEBUG)
    conns = [FakeConn(f'c{i}') for i in range(case['nconn'])]
    for c in conns:
        kit.dispatcher.add_connection(c)
    table = {}
    alive = [True] * len(conns)
    mods = [f'm{i}' for i in range(case['nmods'])]
    levelsets = set()
    had_reset = False
    for n, op in enumerate(case['ops']):
        ctx.ev()
        sub = dict(case, ops=case['ops'][:n + 1])
        before = [len(c.log) for c in conns]
        if op['op'] == 'logging':
            c = op['conn'] % len(conns)
            if not alive[c]:
                continue
            lev = parse_level(op['level'])
            target = mods if op['mod'] in ('.', None, '') else [op['mod']] if op['mod'] in mods else None
            old = dict(table)
            r = kit.request(conns[c], ('logging', op['mod'], op['level']))
            ctx.label('logging:valid' if lev is not None and target else 'logging:invalid')
            if lev is not None and target:
                if r[0] != 'logging':
                    ctx.finding(f'logging:valid-request-refused:{op["level"]!r}'[:60], sub, repr(r)[:200])
                    continue
                for m in target:
                    if lev == 99:
                        table.pop((m, c), None)
                    else:
                        table[(m, c)] = lev
                ctx.ok('logging-request')
            else:
                if not r[0].startswith('error_'):
                    # the node accepted something the reference calls invalid: its table is now unknown -> a finding, stop
                    ctx.finding(f'logging:invalid-request-accepted:{type(op["level"]).__name__}:{op["mod"] if op["mod"] in (".", None) else "module"}',
                                sub, f'{op!r} -> {r!r}'[:200])
                    return
                if r[0] != 'error_logging':
                    ctx.finding('logging:wrong-error-action', sub, repr(r)[:200])
                table = old
                ctx.ok('invalid-logging-request-refused')
        elif op['op'] == 'emit':
            mobj = kit.modules[op['mod']]
            text = f'message {n}'
            try:
                if op.get('malformed'):
                    # a log call whose arguments do not fit its format: logging swallows this (nobody subscribed: nothing
                    # happens) - it must not become an exception in the driver just because somebody listens
                    import logging as _logging
                    _logging.raiseExceptions = False
                    text = None
                    mobj.log.log(op['levelno'], 'message %d', 'x')
                else:
                    mobj.log.log(op['levelno'], 'message %d', n)
            except Exception as e:   # noqa - raised into the driver's logging call
                ctx.finding(f'emit:raises:{type(e).__name__}:' + ('malformed-call' if op.get('malformed') else f'level-{op["levelno"]}'), sub, repr(e))
                return
            if text is None:
                for ci, conn in enumerate(conns):
                    other = [m for m in conn.log[before[ci]:] if m[0] != 'log']
                    if other:
                        ctx.finding('emit:stray-message', sub, repr(other))
                        return
                ctx.ok('malformed-log-call-harmless')
                continue
            for ci, conn in enumerate(conns):
                new = conn.log[before[ci]:]
                want = alive[ci] and table.get((op['mod'], ci)) is not None and op['levelno'] >= table[(op['mod'], ci)]
                mine = [m for m in new if m[0] == 'log' and m[2] == text]
                other = [m for m in new if m not in mine]
                if other:
                    ctx.finding('emit:foreign-message', sub, repr(other)[:200])
                if want and len(mine) != 1:
                    ctx.finding(f'emit:not-delivered:level-{op["levelno"]}-subscribed-{table[(op["mod"], ci)]}', sub,
                                f'conn {ci} subscribed {op["mod"]} at {table[(op["mod"], ci)]}, record level {op["levelno"]}: got {new!r}')
                elif not want and mine:
                    ctx.finding('emit:delivered-without-subscription', sub,
                                f'conn {ci} (alive {alive[ci]}) level {table.get((op["mod"], ci))}, record {op["levelno"]}: {mine!r}')
                elif want and not mine[0][1].startswith(op['mod'] + ':'):
                    ctx.finding('emit:wrong-specifier', sub, repr(mine))
                elif want and not re.fullmatch(r'[A-Za-z0-9_]+', mine[0][1][len(op['mod']) + 1:]):
                    # the specifier is one word on the wire: 'm0:level 45' would be split at the blank by every decoder
                    ctx.finding('emit:specifier-not-one-word', sub, repr(mine))
                else:
                    ctx.ok('routing')
            levelsets.add(frozenset(v for (m, c), v in table.items()))
        elif op['op'] == 'idn':
            c = op['conn'] % len(conns)
            if alive[c]:
                kit.request(conns[c], ('*IDN?', None, None))
                for m in mods:
                    table.pop((m, c), None)
                had_reset = True
        elif op['op'] == 'disconnect':
            c = op['conn'] % len(conns)
            if alive[c]:
                kit.dispatcher.remove_connection(conns[c])
                alive[c] = False
                for m in mods:
                    table.pop((m, c), None)
                had_reset = True
    distinct_levels = len({v for v in table.values()})
    if case['nconn'] >= 2 and had_reset and (distinct_levels >= 2 or len(levelsets) >= 3):
        ctx.nt(('route', repr(case)))
    ctx.sample({'ops': case['ops'][:12], 'nconn': case['nconn']}, every=199)


# ----------------------------------------------------------------------------------------------
# rotation

class FakeTime:
    """calendar seen by mlzlog"""

    def __init__(self, start):
        self.now = start

    def time(self):
        return self.now

    def localtime(self, t=None):
        return time.localtime(self.now if t is None else t)

    def strftime(self, fmt, t=None):
        return time.strftime(fmt, self.localtime() if t is None else t)

    def mktime(self, t):
        return time.mktime(t)

    def __getattr__(self, name):
        return getattr(time, name)


@st.composite
def rotate_case(draw):
    ndated = draw(st.integers(0, 9))
    # days before the start day; negative: dated in the future (wrong clock, copied files)
    ages = draw(st.lists(st.one_of(st.integers(1, 40), st.integers(1, 40), st.integers(-6, -1)), min_size=ndated, max_size=ndated, unique=True))
    foreign = draw(st.lists(st.sampled_from(['notes.txt', 'zz-last.log', 'aa-first.log', 'root-backup.tar', 'root.log', 'archive/', '0000', 'root-old/',
                                             'other-2020-01-01.log', 'root backup.log', 'root+io-2020-01-01.log', 'root2-2020-01-01.log',
                                             'root-0.log', 'root-2020-01-06.old.log', 'root-2024-03-01-copy.log', 'root-old.log']),
                            max_size=3, unique=True))
    return {'kind': 'rotate', 'ages': sorted(ages), 'foreign': foreign, 'max_days': draw(st.integers(0, 5)),
            'steps': draw(st.lists(st.integers(1, 3), min_size=1, max_size=3)),
            'logdir': draw(st.sampled_from(['absolute', 'absolute', 'relative', 'dotdot']))}


def check_rotate(ctx, case):
    import mlzlog
    from frappy.logging import LogfileHandler
    work = os.path.join(VERIF, '.work', f'c20-{os.getpid()}')
    shutil.rmtree(work, ignore_errors=True)
    os.makedirs(os.path.join(work, 'root'))
    d = os.path.join(work, 'root')
    start = time.mktime((2024, 3, 15, 12, 0, 0, 0, 0, -1))
    day0 = datetime.date(2024, 3, 15)

    def fname(date):
        return f'root-{date.isoformat()}.log'
    for age in case['ages']:
        with open(os.path.join(d, fname(day0 - datetime.timedelta(days=age))), 'w') as f:
            f.write('old\n')
    for name in case['foreign']:
        if name.endswith('/'):
            os.makedirs(os.path.join(d, name[:-1]), exist_ok=True)
        else:
            with open(os.path.join(d, name), 'w') as f:
                f.write('foreign\n')
    fake = FakeTime(start)
    real = mlzlog.time
    mlzlog.time = fake
    logging.raiseExceptions = False
    cwd = os.getcwd()
    try:
        logdir = work
        if case.get('logdir') in ('relative', 'dotdot'):
            # the log directory as given by the user: relative to the working directory, or with '..' in it
            os.chdir(os.path.dirname(work))
            logdir = os.path.basename(work) if case['logdir'] == 'relative' else os.path.join(work, 'root', '..')
        h = LogfileHandler(logdir, 'root', max_days=case['max_days'])
        rec = logging.LogRecord('root', logging.INFO, __file__, 1, 'line', None, None)
        h.emit(rec)
        today = day0
        n = case['max_days']
        if len(case['ages']) + 1 > max(n, 1) and case['foreign']:
            ctx.nt(('rotate', repr(case)))
        ctx.sample(case, every=199)
        for k, step in enumerate(case['steps']):
            ctx.ev()
            dated_before = sorted(x for x in os.listdir(d) if x.startswith('root-') and x.endswith('.log') and len(x) == len(fname(day0)))
            other_before = sorted(set(os.listdir(d)) - set(dated_before) - {'current'})
            fake.now += step * 86400
            today = today + datetime.timedelta(days=step)
            sub = dict(case, steps=case['steps'][:k + 1])
            try:
                h.doRollover()
            except Exception as e:   # noqa
                ctx.finding(f'rollover:raises:{type(e).__name__}', sub, repr(e)[:200])
                break
            dated_after = sorted(x for x in os.listdir(d) if x.startswith('root-') and x.endswith('.log') and len(x) == len(fname(day0)))
            other_after = sorted(set(os.listdir(d)) - set(dated_after) - {'current'})
            allfiles = sorted(set(dated_before) | {fname(today)})
            earlier = [x for x in allfiles if x < fname(today)]
            future = [x for x in allfiles if x > fname(today)]       # not "older": never to be removed
            if future:
                ctx.label('rotate:future-dated-files')
            want = allfiles if n == 0 else (earlier[-(n - 1):] if n > 1 else []) + [fname(today)] + future
            if other_after != other_before:
                ctx.finding('rollover:foreign-entry-removed', sub, f'{sorted(set(other_before) - set(other_after))!r} removed')
            if fname(today) not in dated_after:
                ctx.finding('rollover:current-file-removed', sub, f'{fname(today)} not in {dated_after!r}')
            elif dated_after != want:
                kept_old = sorted(set(dated_after) - set(want))
                lost = sorted(set(want) - set(dated_after))
                ctx.finding('rollover:wrong-files-kept' if lost else 'rollover:old-files-not-removed', sub,
                            f'retention {n}: kept {dated_after!r}, expected {want!r} (missing {lost!r}, superfluous {kept_old!r})')
            else:
                ctx.ok('rollover-keeps-newest')
        h.close()
    finally:
        mlzlog.time = real
        os.chdir(cwd)
        shutil.rmtree(work, ignore_errors=True)


def run_shard(ctx, shard):
    if shard['part'] == 'route':
        drive(route_case(), lambda case: check_route(ctx, case), shard['n'], ctx.seed * 1000 + shard['idx'])
    else:
        drive(rotate_case(), lambda case: check_rotate(ctx, case), shard['n'], ctx.seed * 1000 + shard['idx'])


def run_case(ctx, case):
    if case['kind'] == 'route':
        check_route(ctx, case)
    else:
        check_rotate(ctx, case)
