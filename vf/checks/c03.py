"""C03 - datatype descriptions, copies and compatibility verdicts are faithful

rebuild : T' = get_datatype(json(T.export_datatype())) - same datainfo again, same verdicts on probes
copy    : T.copy() equivalent, no object shared, mutations of one side invisible on the other
compat  : TA.compatible(TB) returns  =>  no probe valid for TA is invalid for TB  (soundness)
          refmodel.subset(TA, TB) on a supported pairing  =>  compatible returns  (completeness)
"""
import json

from hypothesis import strategies as st

from vf import refmodel as rm
from vf import specs
from vf.runner import drive
from vf.checks.c01 import frappy_frame, observe

PROPERTY = 'C03'
LEVEL = 'exploration'
RULE = ('(a) Hypothesis draws datatype trees (incl. enums in containers, optional members, units with $, text/status/'
        'limits convenience types) and probes every catalogue candidate of the tree on the original, the rebuilt type and '
        'the copy; (b) ordered pairs (TA, TB) built as same-kind nested/equal/overlapping/disjoint, number-widening, '
        'int->enum/bool, containers with one differing leaf, and kind mismatches; probes from both boundary catalogues. '
        'non-trivial: tree of depth >= 1 or with non-default limits (a), pair whose two sides differ (b); distinct by spec.')
ASSUMPTIONS = ['refmodel.subset decides nestedness of value sets; pairings it does not know (None) are checked for soundness only',
               'probe sets are the boundary catalogues of both sides: a witness outside them is not found']

N_EXAMPLES = {'quick': 400, 'thorough': 5000}
UNITS = ['', '', 'K', '$/min', 'mm$', '$']


def shards(tier, seed):
    return [{'idx': i, 'n': N_EXAMPLES[tier]} for i in range(16)]


def outcome(dt, x, side):
    o = observe(dt, x, None, side)
    return ('ok', rm.canon(o[1])) if o[0] == 'ok' else o[:2] if o[0] == 'bad' else o


def same_outcome(a, b):
    if a[0] != b[0]:
        return False
    if a[0] == 'bad':
        return True    # both bad-value
    return repr(a) == repr(b)


def walk(dt, acc=None):
    """all datatype and enum objects reachable from dt"""
    acc = [] if acc is None else acc
    acc.append(dt)
    # (through __dict__: the convenience types answer attribute look-ups themselves)
    if '_enum' in getattr(dt, '__dict__', {}):
        acc.append(dt.__dict__['_enum'])
    members = getattr(dt, '__dict__', {}).get('members', None) if not isinstance(getattr(type(dt), 'members', None), property) else dt.members
    if isinstance(members, dict):
        for m in members.values():
            walk(m, acc)
    elif isinstance(members, (list, tuple)):
        for m in members:
            walk(m, acc)
    elif members is not None:
        walk(members, acc)
    return acc


def add_units(T, unit):
    if T['k'] in ('double', 'scaled') and unit:
        return dict(T, unit=unit)
    if T['k'] == 'array':
        return dict(T, of=add_units(T['of'], unit))
    if T['k'] == 'tuple':
        return dict(T, of=[add_units(t, unit) for t in T['of']])
    if T['k'] == 'struct':
        return dict(T, members={n: add_units(t, unit) for n, t in T['members'].items()})
    return T


def mutate(dt):
    """change every settable thing of dt (and of its nested members); -> number of mutations"""
    n = 0
    for d in walk(dt):
        if not hasattr(d, 'propertyDict'):
            continue
        for key in list(getattr(d, 'propertyDict', {})):
            for val in (7, 3.5, 'mut', True):
                try:
                    old = d.propertyValues.get(key)
                    d.setProperty(key, val)
                    if d.propertyValues.get(key) != old:
                        n += 1
                        break
                except Exception:  # noqa - not settable to that value
                    pass
    return n


def rebuild_and_copy(ctx, T):
    from frappy.datatypes import get_datatype
    ctx.ev()
    case = {'kind': 'tree', 'T': T}
    if not rm.wellformed(T):
        return
    try:
        dt = specs.build(T)
    except Exception as e:   # noqa - a legal declaration (distinct names and codes, ordered limits) refused by the constructor
        ctx.finding(f'declare:refused:{T["k"]}:{type(e).__name__}', case, f'{T!r}: {e!r}'[:300])
        return
    if rm.depth(T) >= 1 or T.get('min') is not None or T.get('lo') is not None:
        ctx.nt(('tree', specs.tojson(T)))
    for k in rm.kinds(T):
        ctx.label(f'kind:{k}')
    ctx.sample({'T': T}, every=499)
    info = dt.export_datatype()
    try:
        text = json.dumps(info, allow_nan=False)
        rb = get_datatype(json.loads(text), 'p')
    except Exception as e:  # noqa
        ctx.finding(f'rebuild:fails:{T["k"]}:{type(e).__name__}', case, f'{info!r}: {e!r}')
        rb = None
    try:
        cp = dt.copy()
    except Exception as e:  # noqa
        ctx.finding(f'copy:fails:{T["k"]}:{type(e).__name__}', case, repr(e))
        cp = None
    variants = [(n, d) for n, d in (('rebuild', rb), ('copy', cp)) if d is not None]
    for name, other in variants:
        info2 = other.export_datatype()
        if info2 != info:
            ctx.finding(f'{name}:datainfo-differs:{T["k"]}', case, f'{info!r} != {info2!r}')
        else:
            ctx.ok(f'{name}-datainfo')
    for side in ('wire', 'drv'):
        for label, x in specs.catalogue(T, side):
            ctx.ev()
            a = outcome(dt, x, side)
            for name, other in variants:
                b = outcome(other, x, side)
                if not same_outcome(a, b):
                    ctx.finding(f'{name}:verdict-differs:{side}:{rm.status(T, x, side)[1] or "valid"}',
                                dict(case, x=x, side=side), f'{x!r}: original {a!r}, {name} {b!r}')
                else:
                    ctx.ok(f'{name}-verdicts')
    if cp is not None:
        mine = {id(o) for o in walk(dt)}
        shared = [type(o).__name__ for o in walk(cp) if id(o) in mine]
        if shared:
            ctx.finding(f'copy:shares-object:{shared[0]}', case, f'{shared!r}')
        else:
            ctx.ok('copy-no-shared-object')
        # mutations of the copy are invisible on the original and vice versa
        probes = [x for _, x in specs.catalogue(T, 'drv')][:60]
        before = [outcome(dt, x, 'drv') for x in probes]
        n = mutate(cp)
        if dt.export_datatype() != info or [outcome(dt, x, 'drv') for x in probes] != before and not _nanrepr(before):
            ctx.finding(f'copy:mutation-visible-on-original:{T["k"]}', case, f'{n} mutations of the copy changed the original')
        else:
            ctx.ok('copy-mutation-isolated')
        cp2 = dt.copy()
        info_cp2 = cp2.export_datatype()
        nmut = mutate(dt)
        if cp2.export_datatype() != info_cp2:
            ctx.finding(f'copy:mutation-visible-on-copy:{T["k"]}', case, 'mutating the original changed the copy')
        else:
            ctx.ok('copy-mutation-isolated')
        # the description is a function of the current state: after the properties of (nested) members were changed it
        # shows the new ones - as the description of a copy made now does (a copy is not made through the description)
        try:
            now1, now2 = dt.export_datatype(), dt.copy().export_datatype()
            if now1 != now2:
                ctx.finding(f'export:stale-after-mutation:{T["k"]}', case, f'after {nmut} property changes: {now1!r} vs a copy made now {now2!r}'[:400])
            else:
                ctx.ok('export-follows-mutation')
        except Exception as e:   # noqa
            ctx.label(f'export-after-mutation-raises:{type(e).__name__}')


def _nanrepr(lst):
    return 'nan' in repr(lst)


# ---------------------------------------------------------------------------------------

def pair_check(ctx, TA, TB, how):
    from frappy.errors import BadValueError
    ctx.ev()
    case = {'kind': 'pair', 'TA': TA, 'TB': TB, 'how': how}
    if not (rm.wellformed(TA) and rm.wellformed(TB)):
        return
    try:
        a, b = specs.build(TA), specs.build(TB)
    except Exception as e:   # noqa
        ctx.finding(f'declare:refused:{type(e).__name__}', {'kind': 'tree', 'T': TA}, f'{TA!r} / {TB!r}: {e!r}'[:300])
        return
    ctx.label(f'pair:{how}', f'pairkinds:{TA["k"]}->{TB["k"]}')
    if TA != TB:
        ctx.nt(('pair', specs.tojson(TA), specs.tojson(TB)))
    ctx.sample({'TA': TA, 'TB': TB, 'how': how}, every=499)
    try:
        a.compatible(b)
        verdict = 'compatible'
    except BadValueError:
        verdict = 'incompatible'
    except Exception as e:  # noqa
        ctx.finding(f'compat:total:{TA["k"]}->{TB["k"]}:{type(e).__name__}:{frappy_frame(e)}', case, repr(e))
        return
    ctx.label(f'verdict:{verdict}')
    sub = rm.subset(TA, TB)
    ctx.label(f'subset:{sub}')
    if verdict == 'compatible':
        # soundness: look for a witness valid for A and invalid for B
        probes = [x for _, x in specs.catalogue(TA, 'drv')] + [x for _, x in specs.catalogue(TB, 'drv')]
        for x in probes:
            oa = observe(a, x, None, 'drv')
            if oa[0] != 'ok' or rm.status(TA, x, 'drv')[0] == 'R' or not complete(TA, x):
                continue
            ctx.ev()
            ob = observe(b, oa[1], None, 'drv')
            if ob[0] != 'ok':
                ctx.finding(f'compat:unsound:{TA["k"]}->{TB["k"]}', dict(case, witness=x),
                            f'compatible() passed, but {x!r} is valid for A and {ob[:2]} for B')
                break
        else:
            ctx.ok('compat-sound')
    elif sub is True:
        ctx.finding(f'compat:incomplete:{TA["k"]}->{TB["k"]}', case, 'value sets are nested, compatible() raised')
    else:
        ctx.ok('compat-refused')
    if verdict == 'compatible' and sub is True:
        ctx.ok('compat-complete')


def complete(T, x):
    """structs without some optional members are shapes of change requests, not stored values:
    they are no witnesses against a compatibility verdict"""
    k = T['k']
    try:
        if k == 'struct':
            return set(x) == set(T['members']) and all(x[n] is not None and complete(t, x[n]) for n, t in T['members'].items())
        if k == 'array':
            return all(complete(T['of'], e) for e in x)
        if k == 'tuple':
            return all(complete(t, e) for t, e in zip(T['of'], x))
    except TypeError:
        return False
    return True


def widen(draw, T):
    """a type whose value set contains T's (same kind)"""
    k = T['k']
    w = dict(T)
    if k == 'double':
        lo, hi = rm.dlimits(T)
        w['min'] = draw(st.sampled_from([None, lo, lo - 1 if lo > -1e300 else None]))
        w['max'] = draw(st.sampled_from([None, hi, hi + 1 if hi < 1e300 else None]))
    elif k == 'int':
        w['min'] = max(-(1 << 64), T['min'] - draw(st.sampled_from([0, 1, 100])))
        w['max'] = min(1 << 64, T['max'] + draw(st.sampled_from([0, 1, 100])))
    elif k == 'scaled':
        w['lo'] = T['lo'] - draw(st.sampled_from([0, 1, 100]))
        w['hi'] = T['hi'] + draw(st.sampled_from([0, 1, 100]))
    elif k == 'enum':
        extra = {n: c for n, c in (('zz', 999), ('yy', -999)) if draw(st.booleans())}
        w['members'] = dict(T['members'], **extra)
    elif k == 'string':
        w['min'] = max(0, T['min'] - draw(st.sampled_from([0, 1])))
        w['max'] = None if T.get('max') is None or draw(st.booleans()) else T['max'] + draw(st.sampled_from([0, 1, 5]))
        w['utf8'] = bool(T.get('utf8')) or draw(st.booleans())
    elif k == 'blob':
        w['min'] = max(0, T['min'] - draw(st.sampled_from([0, 1])))
        w['max'] = T['max'] + draw(st.sampled_from([0, 1, 5]))
    elif k == 'array':
        w['min'] = max(0, T['min'] - draw(st.sampled_from([0, 1])))
        w['max'] = T['max'] + draw(st.sampled_from([0, 1, 5]))
        w['of'] = widen(draw, T['of'])
    elif k == 'tuple':
        w['of'] = [widen(draw, t) for t in T['of']]
    elif k == 'struct':
        w['members'] = {n: widen(draw, t) for n, t in T['members'].items()}
        if draw(st.booleans()):
            w['members']['extra'] = {'k': 'bool'}
            w['optional'] = sorted(set(T['optional']) | {'extra'})
    return w


def narrow(draw, T):
    """same kind, value set not containing T's (one limit pulled in) - or T itself if impossible"""
    k = T['k']
    w = dict(T)
    if k == 'double':
        lo, hi = rm.dlimits(T)
        if hi - lo > 2 and abs(lo) < 1e300:
            w['min'] = lo + 1
    elif k == 'int' and T['max'] > T['min']:
        w['max'] = T['max'] - 1
    elif k == 'scaled' and T['hi'] > T['lo']:
        w['lo'] = T['lo'] + 1
    elif k == 'enum' and len(T['members']) > 1:
        w['members'] = dict(list(T['members'].items())[1:])
    elif k == 'string':
        w['min'] = T['min'] + 1
        if w.get('max') is not None and w['max'] < w['min']:
            w['max'] = w['min']
    elif k == 'blob' and T['max'] > T['min']:
        w['max'] = T['max'] - 1
    elif k == 'array':
        if draw(st.booleans()) and T['max'] > max(T['min'], 1):
            w['max'] = T['max'] - 1
        else:
            w['of'] = narrow(draw, T['of'])
    elif k == 'tuple':
        i = draw(st.integers(0, len(T['of']) - 1))
        w['of'] = [narrow(draw, t) if j == i else t for j, t in enumerate(T['of'])]
    elif k == 'struct':
        n = draw(st.sampled_from(sorted(T['members'])))
        w['members'] = dict(T['members'], **{n: narrow(draw, T['members'][n])})
    return w


@st.composite
def pair_case(draw):
    how = draw(st.sampled_from(['equal', 'wider', 'narrower', 'independent', 'cross', 'int-enum', 'int-bool',
                                'enum-other', 'bool-other', 'mismatch']))
    if how in ('equal', 'wider', 'narrower'):
        TA = draw(specs.tree_spec(2))
        TB = TA if how == 'equal' else (widen(draw, TA) if how == 'wider' else narrow(draw, TA))
    elif how == 'independent':
        leaf = draw(st.sampled_from(specs.LEAVES[:3] + specs.LEAVES[4:]))
        TA, TB = draw(leaf), draw(leaf)
    elif how == 'cross':
        TA = draw(st.one_of(specs.int_spec(), specs.scaled_spec(), specs.double_spec()))
        TB = draw(st.one_of(specs.int_spec(), specs.scaled_spec(), specs.double_spec()))
    elif how == 'int-enum':
        lo = draw(st.integers(-2, 3))
        TA = {'k': 'int', 'min': lo, 'max': lo + draw(st.integers(0, 3))}
        codes = draw(st.lists(st.integers(-3, 7), min_size=1, max_size=8, unique=True))
        TB = {'k': 'enum', 'members': {f'm{i}': c for i, c in enumerate(codes)}}
    elif how == 'int-bool':
        lo = draw(st.integers(-1, 2))
        TA = {'k': 'int', 'min': lo, 'max': lo + draw(st.integers(0, 2))}
        TB = {'k': 'bool'}
    elif how == 'enum-other':
        TA = draw(specs.enum_spec())
        lo = draw(st.integers(-6, 5))
        TB = draw(st.one_of(specs.int_spec(), st.just({'k': 'int', 'min': lo, 'max': lo + draw(st.sampled_from([0, 1, 5, 400]))}),
                            specs.enum_spec(), st.just({'k': 'bool'}), specs.double_spec()))
    elif how == 'bool-other':
        TA = {'k': 'bool'}
        lo = draw(st.integers(-1, 6))
        TB = draw(st.one_of(st.just({'k': 'int', 'min': lo, 'max': lo + draw(st.integers(0, 2))}), specs.enum_spec(),
                            st.just({'k': 'bool'}), specs.double_spec(), specs.scaled_spec()))
    else:
        TA, TB = draw(specs.tree_spec(1)), draw(specs.tree_spec(1))
    return {'kind': 'pair', 'TA': TA, 'TB': TB, 'how': how}


@st.composite
def tree_case(draw):
    T = add_units(draw(specs.tree_spec(3)), draw(st.sampled_from(UNITS)))
    return {'kind': 'tree', 'T': T}


CONVENIENCE = [
    {'k': 'string', 'min': 0, 'max': None, 'utf8': False, 'text': True},
    {'k': 'string', 'min': 0, 'max': 12, 'utf8': False, 'text': True},
    {'k': 'string', 'min': 0, 'max': 12, 'utf8': True, 'text': True},
    {'k': 'array', 'of': {'k': 'string', 'min': 0, 'max': None, 'utf8': True, 'text': True}, 'min': 0, 'max': 2},
    {'k': 'blob', 'min': 0, 'max': 0},
    {'k': 'string', 'min': 3, 'max': None, 'utf8': True},
    {'k': 'array', 'of': {'k': 'enum', 'members': {'a': 1, 'b': 2}}, 'min': 0, 'max': 2},
    {'k': 'struct', 'members': {'e': {'k': 'enum', 'members': {'x': 0}}, 'u': {'k': 'double', 'min': 0.0, 'max': 1.0, 'unit': '$/s'}},
     'optional': ['u']},
]


def run_shard(ctx, shard):
    if shard['idx'] % 2:
        drive(tree_case(), lambda case: run_case(ctx, case), shard['n'], ctx.seed * 1000 + shard['idx'])
    else:
        drive(pair_case(), lambda case: run_case(ctx, case), shard['n'] * 6, ctx.seed * 1000 + shard['idx'])
    if shard['idx'] == 1:
        for T in CONVENIENCE:
            rebuild_and_copy(ctx, T)
        convenience_types(ctx)
        convenience_compat(ctx)


def convenience_types(ctx):
    """StatusType / LimitsType: copies stay equivalent"""
    from frappy.datatypes import StatusType, LimitsType, FloatRange
    for name, dt, probes in (
            ('status', StatusType('IDLE', 'BUSY', 'ERROR'), [(100, ''), (300, 'x'), (5, ''), ('IDLE', 'a'), (100,), 3]),
            ('limits', LimitsType(FloatRange(0, 10)), [(1, 2), (2, 1), (0, 10), (-1, 3), (1,), 'ab'])):
        ctx.ev()
        cp = dt.copy()
        mine = {id(o) for o in walk(dt)}
        shared = [type(o).__name__ for o in walk(cp) if id(o) in mine]
        if shared:
            ctx.finding(f'copy:shares-object:{shared[0]}:{name}', {'kind': 'convenience'}, repr(shared))
        else:
            ctx.ok('copy-no-shared-object')
        if cp.export_datatype() != dt.export_datatype():
            ctx.finding(f'copy:datainfo-differs:{name}', {'kind': 'convenience'}, '')
        for x in probes:
            if not same_outcome(outcome(dt, x, 'drv'), outcome(cp, x, 'drv')):
                ctx.finding(f'copy:verdict-differs:{name}', {'kind': 'convenience'}, repr(x))
            else:
                ctx.ok('copy-verdicts')


def convenience_compat(ctx):
    """compatibility verdicts involving the convenience types: a verdict (compatible or a bad-value error), never another exception"""
    from frappy.datatypes import StatusType, LimitsType, FloatRange, IntRange, BoolType, StringType, BLOBType, ArrayOf, TupleOf, StructOf, EnumType
    from frappy.errors import BadValueError
    conv = {'status': StatusType('IDLE', 'BUSY', 'ERROR'), 'limits': LimitsType(FloatRange(0, 10))}
    plain = {'double': FloatRange(), 'int': IntRange(0, 5), 'bool': BoolType(), 'string': StringType(), 'blob': BLOBType(0, 5),
             'array': ArrayOf(BoolType(), 0, 3), 'tuple': TupleOf(IntRange(), StringType()), 'struct': StructOf(a=IntRange()),
             'enum': EnumType('e', a=1, b=2), 'tuple2': TupleOf(EnumType('e', IDLE=100, BUSY=300, ERROR=400), StringType())}
    for cname, c in conv.items():
        for pname, q in plain.items():
            for a, b, tag in ((c, q, f'{cname}->{pname}'), (q, c, f'{pname}->{cname}')):
                ctx.ev()
                try:
                    a.compatible(b)
                    ctx.ok('convenience-compat-verdict')
                except BadValueError:
                    ctx.ok('convenience-compat-verdict')
                except Exception as e:   # noqa
                    ctx.finding(f'compat:raises:{type(e).__name__}:{tag.split("->")[1] if tag.startswith(cname) else tag.split("->")[0]}-vs-{cname}',
                                {'kind': 'convenience'}, f'{tag}: {e!r}')
        ctx.ev()
        try:
            hasattr(c, 'no_such_attribute')
            ctx.ok('convenience-hasattr')
        except Exception as e:   # noqa
            ctx.finding(f'convenience:hasattr-raises:{type(e).__name__}:{cname}', {'kind': 'convenience'}, repr(e))


def run_case(ctx, case):
    if case['kind'] == 'tree':
        rebuild_and_copy(ctx, case['T'])
    elif case['kind'] == 'pair':
        pair_check(ctx, case['TA'], case['TB'], case.get('how', '?'))
    elif case['kind'] == 'convenience':
        convenience_types(ctx)
        convenience_compat(ctx)
