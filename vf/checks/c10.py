"""C10 - configuration is applied faithfully; erroneous configuration is rejected whole

generated module classes x generated configurations (module properties, parameter values as bare
value / Param(value, **props) / Param(**props), overridden datatype and parameter properties, 0-3
injected errors) through (a) the module constructor, (b) a node with several modules, (c) config
text files merged by the real load_config.
"""
import io
import os
import sys
import json
import types
import shutil
import contextlib

from hypothesis import strategies as st

from vf import refmodel as rm
from vf import specs, classgen
from vf.nodekit import Kit, FakeConn
from vf.runner import drive, VERIF
from vf.checks.c03 import complete

PROPERTY = 'C10'
LEVEL = 'exploration'
RULE = ('Hypothesis draws a module class (parameters of leaf and container datatypes, with/without write method, some needing '
        'configuration) and a configuration: any subset of module properties and parameters configured, each as bare value, '
        'Param(value, props) or Param(props) in either key order, values valid / out of range / wrongly typed for the final '
        '(overridden) datatype, plus 0-3 injected errors (unknown name, unknown parameter property, wrong typed value or property, '
        'missing description, missing required value, inverted limits). One evaluation = one (class, cfg). non-trivial: a value '
        'together with a property override, or >= 2 simultaneous errors; distinct by (class, cfg).')
ASSUMPTIONS = ['a numerically out-of-range start value may be applied or rejected (attribute assignment does no range check per docs), '
               'but never silently dropped', 'start-up is executed by calling the poll thread body in the harness thread']

N_EXAMPLES = {'quick': 250, 'thorough': 5000}
TYPE_REASONS = ('-for-', 'nonnumber', 'fraction-for', 'nonbool', 'nonstring', 'nonbytes', 'nonscalar', 'unknown-member', 'missing-member')


def shards(tier, seed):
    return [{'idx': i, 'n': N_EXAMPLES[tier]} for i in range(15)] + [{'idx': 'files', 'n': N_EXAMPLES[tier] // 4}, {'idx': 'names', 'n': N_EXAMPLES[tier]}]


def override_T(T, props):
    """the final datatype after the configured datatype properties are applied"""
    T2 = dict(T)
    k = T['k']
    if k in ('double', 'int'):
        if 'min' in props:
            T2['min'] = props['min']
        if 'max' in props:
            T2['max'] = props['max']
    elif k == 'scaled':
        if 'min' in props:
            T2['lo'] = round(props['min'] / T['scale'])
        if 'max' in props:
            T2['hi'] = round(props['max'] / T['scale'])
    elif k == 'string' and 'maxchars' in props:
        T2['max'] = props['maxchars']
    elif k == 'blob' and 'maxbytes' in props:
        T2['max'] = props['maxbytes']
    elif k == 'array' and 'maxlen' in props:
        T2['max'] = props['maxlen']
    if 'unit' in props and k in ('double', 'scaled'):
        T2['unit'] = props['unit']
    return T2


@st.composite
def dt_props(draw, T):
    """datatype property overrides for T (consistent: min <= max)"""
    k = T['k']
    props = {}
    if not draw(st.booleans()):
        return props
    if k == 'double':
        lo, hi = sorted([draw(st.sampled_from([-100.0, -1.0, 0.0, 0.5, 1.0, 10.0, 1e6])) for _ in range(2)])
        if draw(st.booleans()):
            props['min'] = lo
        if draw(st.booleans()):
            props['max'] = hi
        if T.get('min') is not None and 'max' in props and 'min' not in props and props['max'] < T['min']:
            props['min'] = props['max']
        if T.get('max') is not None and 'min' in props and 'max' not in props and props['min'] > T['max']:
            props['max'] = props['min']
        if draw(st.booleans()):
            props['unit'] = draw(st.sampled_from(['K', 'mbar', 'A/s']))
    elif k == 'int':
        lo, hi = sorted([draw(st.sampled_from([-100, -1, 0, 1, 7, 1000])) for _ in range(2)])
        props['min'], props['max'] = lo, hi
    elif k == 'scaled':
        lo, hi = sorted([draw(st.sampled_from([-100, -1, 0, 1, 7, 1000])) for _ in range(2)])
        props['min'], props['max'] = lo * T['scale'], hi * T['scale']
    elif k == 'string':
        props['maxchars'] = max(T['min'], draw(st.sampled_from([1, 3, 8, 100])))
    elif k == 'blob':
        props['maxbytes'] = max(T['min'], draw(st.sampled_from([1, 3, 8, 100])))
    elif k == 'array':
        props['maxlen'] = max(T['min'], 1, draw(st.sampled_from([1, 2, 5])))
    return props


def value_class(T2, v):
    st_, why = rm.status(T2, v, 'drv')
    if st_ == 'A' and not complete(T2, v):
        return 'range', 'partial-struct'    # a stored value is a complete struct; partial ones are shapes of change requests
    if st_ == 'A':
        return 'valid', why
    if st_ == 'E':
        return 'range', why
    if any(t in why for t in TYPE_REASONS) and why != 'length':
        return 'wrongtype', why
    return 'range', why


@st.composite
def cfg_case(draw):
    cs = draw(classgen.class_spec(max_params=4, max_cmds=1, depth=1))
    for p in cs['params']:
        p.pop('limits', None)
        p.pop('limits_in_subclass', None)
        p.pop('check', None)
        if p['T']['k'] in ('double', 'int') and not p.get('readonly') and not p.get('constant') and draw(st.integers(0, 3)) == 0:
            p['limits'] = 'max'      # a limit parameter <name>_max: its datatype comes from the (configured) base parameter
        if p.get('constant'):
            p['constant'] = False
            p['readonly'] = True
        if p['export'] is not True:
            p['export'] = True
        if not p.get('readonly') and draw(st.integers(0, 9)) == 0:
            p['needscfg'] = draw(st.sampled_from([True, True, 'with-default']))
        if p.get('write') == 'altered':
            p['write'] = 'value'     # the stored default may be invalid for the overridden datatype
    cfg = {'description': 'configured module'}
    errors = []
    if draw(st.integers(0, 3)) == 0:
        cs['optional'] = draw(st.sampled_from([['op0'], ['oc0'], ['op0', 'oc0']]))
    if draw(st.integers(0, 3)) == 0:
        cs['enablePoll'] = False
    if draw(st.integers(0, 3)) == 0:
        cfg['group'] = 'grp'
    if draw(st.integers(0, 3)) == 0:
        cfg['visibility'] = draw(st.sampled_from(['expert', 'advanced', 2]))
    if draw(st.integers(0, 4)) == 0:
        cfg['meaning'] = ['temperature', 10]
    for p in cs['params']:
        T = p['T']
        how = draw(st.sampled_from(['none', 'none', 'bare', 'param-value', 'param-value', 'param-props']))
        if p.get('needscfg') and how in ('none', 'param-props') and draw(st.integers(0, 2)):
            how = 'bare'
        if how == 'none':
            if p.get('needscfg'):
                errors.append({'kind': 'needscfg', 'needle': p['name']})
            continue
        props = {}
        if how != 'bare':
            props.update(draw(dt_props(T)))
            if draw(st.integers(0, 3)) == 0:
                props['visibility'] = 'expert'
            if draw(st.integers(0, 3)) == 0:
                props['description'] = 'configured description'
            if draw(st.integers(0, 4)) == 0:
                props['group'] = 'pgroup'
        T2 = override_T(T, props)
        entry = {}
        if how in ('bare', 'param-value'):
            vkind = draw(st.sampled_from(['valid', 'valid', 'valid', 'catalogue']))
            if vkind == 'valid':
                v = draw(specs.valid_value(T2, True))
            else:
                label, v = draw(st.sampled_from([c for c in specs.catalogue(T2, 'drv') if c[1] is not None and c[1] == c[1]]))
            # the start value is given as 'value', or (Param(default=...)) as a default which is applied but not written
            entry['default' if how == 'param-value' and not p.get('needscfg') and draw(st.integers(0, 1)) == 0 else 'value'] = v
        elif p.get('needscfg'):
            errors.append({'kind': 'needscfg', 'needle': p['name']})
        items = list(entry.items()) + list(props.items())
        if draw(st.booleans()):
            items.reverse()
        cfg[p['name']] = {'$order': [k for k, _ in items], **dict(items)}
    for p in cs['params']:
        if p.get('limits') and not p.get('constant') and p.get('export') is True and draw(st.booleans()):
            ent = cfg.get(p['name'])
            T2 = override_T(p['T'], {k: v for k, v in (ent or {}).items() if k not in ('$order', 'value', 'default')})
            how = draw(st.sampled_from(['valid', 'valid', 'wrong-type', 'unknown-prop']))
            lent = {'$order': ['value'], 'value': draw(specs.valid_value(T2, True)) if how != 'wrong-type' else draw(st.sampled_from(['abc', [1], None]))}
            if how == 'unknown-prop':
                lent['zzlim'] = 1
                lent['$order'] = draw(st.sampled_from([['value', 'zzlim'], ['zzlim', 'value']]))
            elif how == 'valid' and T2['k'] in ('double', 'int') and draw(st.booleans()):
                # a datatype property configured on the limit parameter: it concerns the limit parameter, not its base parameter
                lent['max'] = lent['value']
                lent['$order'] = draw(st.sampled_from([['value', 'max'], ['max', 'value']]))
            cfg[p['name'] + '_max'] = lent
    # injected errors
    for _ in range(draw(st.sampled_from([0, 0, 0, 1, 1, 2, 3]))):
        kind = draw(st.sampled_from(['unknown-name', 'unknown-prop', 'bad-prop', 'no-description', 'inverted', 'writable-without-method', 'export-collision']))
        p = draw(st.sampled_from(cs['params']))
        ent = cfg.get(p['name'])
        if kind == 'unknown-name':
            name = draw(st.sampled_from(['nix', 'p9', 'valeu'] + 2 * cs.get('optional', [])))
            cfg[name] = {'$order': ['value'], 'value': 1}
            errors.append({'kind': kind, 'needle': name})
        elif kind == 'unknown-prop':
            ent = ent or {'$order': []}
            ent['zzprop'] = 1
            ent['$order'] = ent['$order'] + ['zzprop']
            cfg[p['name']] = ent
            errors.append({'kind': kind, 'needle': 'zzprop'})
        elif kind == 'bad-prop':
            ent = ent or {'$order': []}
            prop, val = draw(st.sampled_from([('visibility', 'nonsense'), ('readonly', 'maybe'), ('group', 5)]))
            if prop not in ent:
                ent['$order'] = ent['$order'] + [prop]
            ent[prop] = val
            cfg[p['name']] = ent
            errors.append({'kind': kind, 'needle': p['name']})
        elif kind == 'writable-without-method' and p.get('readonly') and not p.get('write'):
            # readonly=False configured for a parameter the class declares read-only and has no write method for
            ent = ent or {'$order': []}
            if 'readonly' not in ent:
                ent['$order'] = ent['$order'] + ['readonly']
            ent['readonly'] = False
            cfg[p['name']] = ent
            errors.append({'kind': kind, 'needle': p['name']})
        elif kind == 'no-description':
            if 'description' in cfg:
                del cfg['description']
                errors.append({'kind': kind, 'needle': 'description'})
        elif kind == 'export-collision' and len(cs['params']) >= 2:
            # the exported name of a parameter is configured to be the one of an other parameter: one of them would vanish
            other = draw(st.sampled_from([q for q in cs['params'] if q is not p]))
            ent = ent or {'$order': []}
            if 'export' not in ent:
                ent['$order'] = ent['$order'] + ['export']
            ent['export'] = '_' + other['name']
            cfg[p['name']] = ent
            errors.append({'kind': kind, 'needle': p['name']})
        elif kind == 'inverted' and (p['T']['k'] in ('double', 'int') or p['T']['k'] == 'array' and p['T']['of']['k'] in ('double', 'int')):
            # (datatype properties given for an array parameter are passed on to the member type)
            ent = ent or {'$order': []}
            for k in ('min', 'max'):
                if k not in ent:
                    ent['$order'] = ent['$order'] + [k]
            ent['min'], ent['max'] = 5, 1
            cfg[p['name']] = ent
            errors.append({'kind': kind, 'needle': p['name']})
    return {'kind': 'cfg', 'cls': cs, 'cfg': cfg, 'injected': errors}


def ordered(entry):
    order = entry.get('$order') or sorted(k for k in entry if k != '$order')   # deterministic also for replayed cases
    order = [k for k in order if k in entry] + [k for k in entry if k not in order and k != '$order']
    return {k: entry[k] for k in order}


def real_cfg(cfg):
    return {k: (ordered(v) if isinstance(v, dict) and k != 'meaning' else v) for k, v in cfg.items()}


class Stop(BaseException):
    pass


def run_startup(mobj):
    """the poll thread body in the harness thread, until its first wait"""
    if not mobj.polledModules:
        return

    def wait(timeout=None):
        raise Stop
    mobj.triggerPoll.wait = wait
    try:
        mobj._Module__pollThread(mobj.polledModules, lambda: None)
    except Stop:
        pass


MODULE_PROPS = {'description', 'group', 'visibility', 'meaning', 'export', 'pollinterval', 'slowinterval',
                'omit_unchanged_within', 'original_id', 'implementation', 'interface_classes', 'features'}
PARAM_PROPS = {'description', 'datatype', 'readonly', 'group', 'visibility', 'constant', 'default', 'value', 'export',
               'needscfg', 'update_unchanged', 'influences'}
DT_PROPS = {'double': {'min', 'max', 'unit', 'fmtstr', 'absolute_resolution', 'relative_resolution'},
            'int': {'min', 'max'},
            'scaled': {'scale', 'min', 'max', 'unit', 'fmtstr', 'absolute_resolution', 'relative_resolution'},
            'string': {'minchars', 'maxchars', 'isUTF8'}, 'blob': {'minbytes', 'maxbytes'}, 'array': {'minlen', 'maxlen'}}


def consistent(cs):
    """shrinking must not leave a class whose own defaults are invalid"""
    for p in cs['params']:
        if p.get('needscfg'):
            continue
        if 'default' not in p or rm.status(p['T'], p['default'], 'drv')[0] != 'A':
            return False
    return True


def derive_errors(cs, cfg):
    """the configuration errors present in cfg - derived, so that a (shrunk) case is always judged by what it contains"""
    errors = []
    names = {p['name'] for p in cs['params']} | {c['name'] for c in cs.get('cmds', [])} | {p['name'] + '_max' for p in cs['params'] if p.get('limits')}
    for p in cs['params']:
        lent = cfg.get(p['name'] + '_max')
        if p.get('limits') and isinstance(lent, dict):
            for k in lent:
                if k != '$order' and k not in PARAM_PROPS | DT_PROPS.get(p['T']['k'], set()):
                    errors.append({'kind': 'unknown-prop', 'needle': k})
            if 'value' in lent and (lent['value'] is None or value_class(p['T'], lent['value'])[0] == 'wrongtype'):
                errors.append({'kind': 'limit-wrong-type', 'needle': p['name'] + '_max'})
    if 'description' not in cfg:
        errors.append({'kind': 'no-description', 'needle': 'description'})
    for key, ent in cfg.items():
        if key in MODULE_PROPS:
            continue
        if key not in names:
            errors.append({'kind': 'unknown-name', 'needle': key})
    for p in cs['params']:
        ent = cfg.get(p['name'])
        if not isinstance(ent, dict):
            if p.get('needscfg'):
                errors.append({'kind': 'needscfg', 'needle': p['name']})
            continue
        known = PARAM_PROPS | DT_PROPS.get(p['T']['k'], set())
        if p['T']['k'] == 'array':
            known = known | DT_PROPS.get(p['T']['of']['k'], set())
        for k, v in ent.items():
            if k == '$order':
                continue
            if k not in known:
                errors.append({'kind': 'unknown-prop', 'needle': k})
        if 'visibility' in ent and ent['visibility'] not in (1, 2, 3, 'user', 'advanced', 'expert'):
            errors.append({'kind': 'bad-prop', 'needle': p['name']})
        if 'readonly' in ent and not (isinstance(ent['readonly'], (bool, int)) and ent['readonly'] in (0, 1)):
            errors.append({'kind': 'bad-prop', 'needle': p['name']})
        if 'group' in ent and not isinstance(ent['group'], str):
            errors.append({'kind': 'bad-prop', 'needle': p['name']})
        if ent.get('readonly', True) in (False, 0) and p.get('readonly') and not p.get('write') and not p.get('constant'):
            errors.append({'kind': 'writable-without-method', 'needle': p['name']})
        if rm.isnum(ent.get('min')) and rm.isnum(ent.get('max')) and ent['min'] > ent['max']:
            errors.append({'kind': 'inverted', 'needle': p['name']})
        if p.get('needscfg') and 'value' not in ent:
            errors.append({'kind': 'needscfg', 'needle': p['name']})
    # exported names in effect (configured ones included) must be distinct
    eff = {}
    for p in cs['params']:
        ent = cfg.get(p['name'])
        exp = ent.get('export', True) if isinstance(ent, dict) else True
        if exp is True:
            eff[p['name']] = '_' + p['name']
        elif isinstance(exp, str) and exp:
            eff[p['name']] = exp
    for pn, wire_ in eff.items():
        if any(w2 == wire_ for p2, w2 in eff.items() if p2 != pn) and wire_ != '_' + pn:
            errors.append({'kind': 'export-collision', 'needle': pn})
    return errors


def analyse(case):
    """reference: which configured values must be applied / may be rejected / must be rejected"""
    cs, cfg = case['cls'], case['cfg']
    errors = derive_errors(cs, cfg)
    plan = {}
    for p in cs['params']:
        ent = cfg.get(p['name'])
        if not isinstance(ent, dict):
            continue
        props = {k: v for k, v in ent.items() if k not in ('$order', 'value', 'default')}
        if any(e['kind'] in ('inverted', 'unknown-prop', 'bad-prop', 'writable-without-method') and e['needle'] in (p['name'], 'zzprop') for e in errors):
            T2 = p['T']
        else:
            try:
                T2 = override_T(p['T'], props)
                specs.build(T2)
            except Exception:   # noqa - overrides which do not fit together: also a configuration error
                errors.append({'kind': 'inconsistent-override', 'needle': p['name']})
                T2 = p['T']
        info = {'T2': T2, 'props': props}
        if 'value' in ent or 'default' in ent:
            info['value'] = ent['value'] if 'value' in ent else ent['default']
            info['as_default'] = 'value' not in ent
            info['vclass'], info['why'] = value_class(T2, info['value'])
            if 'value' in ent and 'default' in ent:
                info['vclass2'] = value_class(T2, ent['default'])[0]
        plan[p['name']] = info
    return plan, errors


def check_cfg(ctx, case):
    from frappy.errors import ConfigError
    cs, cfg = case['cls'], case['cfg']
    if not consistent(cs):
        return
    ctx.ev()
    plan, errors = analyse(case)
    if not any(e['kind'] == 'export-collision' for e in errors) and \
            any(isinstance(v, dict) and v.get('export', True) is not True for k, v in cfg.items()):
        # exported names are configured only to make them collide here (the generator does nothing else; renaming without
        # collision is the business of C06): a shrunk case renaming or hiding parameters is not examined
        ctx.label('renamed-export:not-examined')
        return
    must_fail = bool(errors) or any('wrongtype' in (i.get('vclass'), i.get('vclass2')) for i in plan.values())
    may_fail = any('range' in (i.get('vclass'), i.get('vclass2')) for i in plan.values())
    nvalprops = sum(1 for i in plan.values() if 'value' in i and i['props'])
    if nvalprops or len(errors) >= 2:
        ctx.nt((json.dumps(cs, sort_keys=True, default=repr), json.dumps(cfg, sort_keys=True, default=repr)))
    ctx.label(f'errors:{len(errors)}', f'expect:{"fail" if must_fail else "either" if may_fail else "ok"}')
    for e in errors:
        ctx.label(f'inject:{e["kind"]}' + (':optional-not-implemented' if e['needle'] in cs.get('optional', ()) else '')
                  + (':array-member' if e['kind'] == 'inverted' and any(p['name'] == e['needle'] and p['T']['k'] == 'array' for p in cs['params']) else ''))
    for i in plan.values():
        if i.get('as_default'):
            ctx.label(f'start-value-as-default:{i["vclass"]}')
    ctx.sample({'class': cs, 'cfg': cfg, 'injected': errors}, every=199)
    cls = classgen.build_class(cs, 'G0')
    the_cfg = {'m0': dict(real_cfg(cfg), cls=cls)}
    frozen = json.dumps({k: v for k, v in the_cfg['m0'].items() if k != 'cls'}, sort_keys=True, default=repr)
    kit = Kit(the_cfg)
    if json.dumps({k: v for k, v in the_cfg['m0'].items() if k != 'cls'}, sort_keys=True, default=repr) != frozen:
        # the loaded configuration is used again (restart, one Param object for two modules): creating a module must not change it
        ctx.finding('configuration-object-modified', case, f'{frozen[:150]} -> {json.dumps({k: v for k, v in the_cfg["m0"].items() if k != "cls"}, sort_keys=True, default=repr)[:150]}')
        return
    failed = bool(kit.errors)
    text = '\n'.join(kit.errors)
    if failed:
        if 'm0' in kit.modules:
            ctx.finding('rejected-but-registered', case, text[:300])
        if not (must_fail or may_fail):
            ctx.finding('valid-config-rejected', case, text[:400])
            return
        for e in errors:
            ctx.label('error-mentioned' if e['needle'] in text else f'error-not-mentioned:{e["kind"]}')
        if 'm0' not in text:
            ctx.finding('error-not-reported:module-name', case, text[:300])
        ctx.ok('rejected-whole')
        return
    if must_fail:
        kinds = sorted({e['kind'] for e in errors}) or ['wrongtype-value']
        ctx.finding(f'bad-config-accepted:{kinds[0]}', case, f'errors {errors!r} plan {[(n, i.get("vclass"), i.get("why")) for n, i in plan.items()]!r}')
        return
    mobj = kit.modules['m0']
    rec = cls.rec
    d = json.loads(json.dumps(kit.describe()))['modules']['m0']
    # module properties
    for prop in ('group', 'description'):
        if prop in cfg and d.get(prop) != cfg[prop]:
            ctx.finding(f'module-property-not-applied:{prop}', case, repr(d.get(prop)))
    if 'visibility' in cfg and d.get('visibility') != {'expert': 3, 'advanced': 2, 2: 2}[cfg['visibility']]:
        ctx.finding('module-property-not-applied:visibility', case, repr(d.get('visibility')))
    if 'meaning' in cfg and d.get('meaning') != cfg['meaning']:
        ctx.finding('module-property-not-applied:meaning', case, repr(d.get('meaning')))
    ctx.ok('module-properties')
    byname = {p['name']: p for p in cs['params']}
    for name, info in plan.items():
        p = byname[name]
        pobj = mobj.parameters[name]
        ad = d['accessibles']['_' + name]
        T2 = info['T2']
        if ad['datainfo'] != json.loads(json.dumps(specs.build(T2).export_datatype())):
            ctx.finding(f'datainfo-override-not-described:{T2["k"]}', case, f'{ad["datainfo"]!r} vs final {T2!r}')
        else:
            ctx.ok('datainfo-override-described')
        for prop in ('description', 'group'):
            if prop in info['props'] and ad.get(prop) != info['props'][prop]:
                ctx.finding(f'param-property-not-applied:{prop}', case, repr(ad))
        if 'visibility' in info['props'] and ad.get('visibility') != 3:
            ctx.finding('param-property-not-applied:visibility', case, repr(ad))
        if 'value' in info:
            cache = rm.canon(pobj.value)
            if info['vclass'] == 'range':
                # applied although outside the limits (no range check on assignment): it must still be the configured number
                x = info['value']
                probs = []
                if T2['k'] in ('double', 'int', 'scaled') and (rm.isnum(x) or isinstance(x, bool)) and rm.finite(x):
                    tol = max(abs(float(x)) * 1e-6, T2.get('scale', 0.0), T2.get('abs', 0.0))
                    if not rm.isnum(cache) or abs(float(cache) - float(x)) > tol:
                        probs = [('fidelity', 'configured-number-changed')]
            else:
                probs = rm.denotes(T2, info['value'], None, cache, 'drv')
            if pobj.readerror is not None or probs:
                ctx.finding(f'configured-value-not-applied:{info["vclass"]}:{info["why"] or T2["k"]}', case,
                            f'{name} = {info["value"]!r}: cache {cache!r}, readerror {pobj.readerror!r}, order {cfg[name].get("$order")}')
            else:
                ctx.ok('configured-value-in-cache')
    for p in cs['params']:
        lent = cfg.get(p['name'] + '_max')
        if p.get('limits') and isinstance(lent, dict) and 'max' in lent and p.get('export') is True:
            T2 = plan[p['name']]['T2'] if p['name'] in plan else p['T']
            ad = d['accessibles'].get('_' + p['name'])
            if ad is not None and ad['datainfo'] != json.loads(json.dumps(specs.build(T2).export_datatype())):
                ctx.finding(f'limit-configuration-changes-base-parameter:{T2["k"]}', case, f'{p["name"]}_max: {lent!r}; {p["name"]} described {ad["datainfo"]!r}, expected {T2!r}')
            else:
                ctx.ok('limit-configuration-separate')
    for p in cs['params']:
        lent = cfg.get(p['name'] + '_max')
        if p.get('limits') and isinstance(lent, dict) and 'value' in lent:
            got = rm.canon(getattr(mobj, p['name'] + '_max'))
            T2 = plan[p['name']]['T2'] if p['name'] in plan else p['T']
            if value_class(T2, lent['value'])[0] == 'valid' and rm.denotes(T2, lent['value'], None, got, 'drv'):
                ctx.finding('configured-limit-not-applied', case, f'{p["name"]}_max = {lent["value"]!r}: cache {got!r}')
            else:
                ctx.ok('configured-limit-in-cache')
    # start-up: configured values of parameters with a write method are written exactly once, before the first read
    nbefore = len(rec['calls'])
    with contextlib.redirect_stdout(io.StringIO()):
        run_startup(mobj)
    calls = rec['calls'][nbefore:]
    first_read = next((i for i, c in enumerate(calls) if c[0] == 'read'), len(calls))
    for name, info in plan.items():
        p = byname[name]
        if 'value' not in info:
            continue
        writes = [i for i, c in enumerate(calls) if c[0] == 'write' and c[1] == name]
        if info.get('as_default'):
            if writes:     # a configured default is a start value of the cache only
                ctx.finding('startup-write-of-default', case, f'{name}: {calls!r}'[:300])
            else:
                ctx.ok('default-not-written')
        elif p.get('write'):
            lim = cfg.get(name + '_max') if p.get('limits') else None
            if isinstance(lim, dict) and rm.isnum(lim.get('value')) and rm.isnum(info['value']) and info['value'] > lim['value']:
                continue    # start value above the configured limit: the write is refused by the limit check (logged): either
            if info['vclass'] == 'range':
                continue    # the write wrapper refuses out-of-range values at start-up (logged): either
            if len(writes) != 1:
                ctx.finding(f'startup-write-count:{len(writes)}', case, f'{name}: {calls!r}'[:300])
            elif writes[0] > first_read:
                ctx.finding('startup-write-after-first-read', case, f'{name}: {calls!r}'[:300])
            else:
                arg = calls[writes[0]][2]
                if rm.denotes(info['T2'], info['value'], None, arg, 'drv'):
                    ctx.finding('startup-write-wrong-value', case, f'{name}: configured {info["value"]!r}, written {arg!r}')
                else:
                    ctx.ok('startup-write-once-before-poll')
        elif writes:
            ctx.finding('startup-write-without-method', case, repr(calls)[:300])
    unconfigured = [c for c in calls if c[0] == 'write' and ('value' not in plan.get(c[1], {}) or plan[c[1]].get('as_default'))]
    if unconfigured:
        ctx.finding('startup-write-of-unconfigured-parameter', case, repr(unconfigured)[:300])
    # later range checks use the overridden limits
    conn = FakeConn('c')
    for name, info in plan.items():
        p = byname[name]
        if p.get('readonly') or info['props'].get('readonly') or info['T2']['k'] not in ('double', 'int', 'scaled', 'string', 'blob', 'array'):
            continue
        T2 = info['T2']
        for label, x in specs.leaf_catalogue(T2, 'wire') if T2['k'] != 'array' else specs.catalogue(T2, 'wire')[:40]:
            st_, why = rm.status(T2, x, 'wire')
            if st_ == 'E' or label.startswith('kind:'):
                continue
            ctx.ev()
            r = kit.request(conn, ('change', f'm0:_{name}', x))
            if p.get('limits') and rm.isnum(x) and not isinstance(x, bool) and x >= getattr(mobj, name + '_max') - abs(getattr(mobj, name + '_max')) * 1e-9 - 1e-300:
                continue     # at or above the dynamic limit: C04/C18 judge that
            if (r[0] == 'changed') != (st_ == 'A'):
                ctx.finding(f'later-change-ignores-override:{T2["k"]}:{why or "valid"}', dict(case, x=x), f'{x!r}: {r[:1]} {str(r[2])[:100]}')
            else:
                ctx.ok('later-change-uses-override')
    mobj.polledModules.clear()


# ---------------------------------------------------------------------------------------
# several modules, configuration text files

def pyrepr(v):
    if isinstance(v, float) and (v != v or abs(v) == float('inf')):
        return f"float('{v}')"
    if isinstance(v, dict):
        return '{' + ', '.join(f'{k!r}: {pyrepr(e)}' for k, e in v.items()) + '}'
    if isinstance(v, (list, tuple)):
        return '[' + ', '.join(pyrepr(e) for e in v) + ']'
    return repr(v)


def cfg_text(node, mods):
    lines = []
    if node:
        lines.append(f'Node({node["equipment_id"]!r}, {node["description"]!r}, {node.get("interface", "tcp://5000")!r})')
    for name, (clspath, cfg) in mods.items():
        args = [repr(name), repr(clspath), repr(cfg.get('description', 'no description'))]
        for k, v in cfg.items():
            if k == 'description':
                continue
            if isinstance(v, dict) and '$order' in v:
                e = ordered(v)
                if list(e) == ['value']:
                    args.append(f'{k}={pyrepr(e["value"])}')
                else:
                    inner = ', '.join(f'{pk}={pyrepr(pv)}' for pk, pv in e.items())
                    args.append(f'{k}=Param({inner})')
            else:
                args.append(f'{k}={pyrepr(v)}')
        lines.append('Mod(' + ',\n    '.join(args) + ')')
    return '\n'.join(lines) + '\n'


@st.composite
def files_case(draw):
    nmods = draw(st.integers(2, 4))
    mods = []
    for i in range(nmods):
        c = draw(cfg_case())
        c['cfg'].setdefault('description', f'module {i}')
        mods.append(c)
    nfiles = draw(st.integers(1, 3))
    # assignment of modules to files; duplicates: a module name may appear in a later file again
    assign = [draw(st.integers(0, nfiles - 1)) for _ in range(nmods)]
    dup = draw(st.integers(0, 2)) == 0 and nfiles > 1
    return {'kind': 'files', 'mods': mods, 'nfiles': nfiles, 'assign': assign, 'dup': dup}


def check_files(ctx, case):
    """config text -> load_config -> node: parsed dicts equal the generated ones, first file wins,
    all failing modules are reported together and none of them is registered"""
    import logging
    from pathlib import Path
    from frappy.lib import generalConfig
    from frappy.config import load_config
    ctx.ev()
    work = os.path.join(VERIF, '.work', f'c10-{os.getpid()}')
    shutil.rmtree(work, ignore_errors=True)
    os.makedirs(work)
    gen = types.ModuleType('frappy_vfgen')
    sys.modules['frappy_vfgen'] = gen
    files = [dict() for _ in range(case['nfiles'])]
    expected = {}
    for i, m in enumerate(case['mods']):
        cls = classgen.build_class(m['cls'], f'G{i}')
        setattr(gen, f'G{i}', cls)
        fi = case['assign'][i] % case['nfiles']
        files[fi][f'm{i}'] = (f'frappy_vfgen.G{i}', m['cfg'])
    for fi in range(case['nfiles']):
        for name, (clspath, cfg) in files[fi].items():
            if name not in expected:
                expected[name] = (fi, clspath, cfg)
    if case.get('dup') and case['nfiles'] > 1 and files[0]:
        name = sorted(files[0])[0]
        files[-1][name] = (files[0][name][0], {'description': 'duplicate in a later file'})
    paths = []
    for fi, mods in enumerate(files):
        path = os.path.join(work, f'f{fi}_cfg.py')
        with open(path, 'w', encoding='utf-8') as f:
            f.write(cfg_text({'equipment_id': f'eq{fi}', 'description': f'node {fi}'}, mods))
        paths.append(path)
    generalConfig.testinit(confdir=[Path(work)], logdir=Path(work), piddir=Path(work))
    ctx.nt(('files', json.dumps(case, sort_keys=True, default=repr)))
    try:
        merged = load_config(paths, logging.getLogger('vfcfg'))
    except Exception as e:   # noqa
        ctx.finding(f'files:load-config-fails:{type(e).__name__}', case, repr(e)[:300])
        shutil.rmtree(work, ignore_errors=True)
        return
    node = merged.pop('node')
    if node['equipment_id'] != 'eq0':
        ctx.finding('files:node-not-from-first-file', case, repr(node))
    if set(merged) != set(expected):
        ctx.finding('files:module-set-differs', case, f'{sorted(merged)} vs {sorted(expected)}')
    for name, (fi, clspath, cfg) in expected.items():
        got = dict(merged.get(name, {}))
        want = {'cls': clspath, 'description': cfg.get('description', 'no description')}
        for k, v in cfg.items():
            if k == 'description':
                continue
            want[k] = ordered(v) if isinstance(v, dict) and '$order' in v else {'value': v}
        if fi > 0:
            want['original_id'] = f'eq{fi}'
        if json.dumps(rm.canon(got), sort_keys=True, default=repr) != json.dumps(rm.canon(want), sort_keys=True, default=repr):
            ctx.finding('files:parsed-config-differs', case, f'{name}: {got!r} vs {want!r}'[:500])
        else:
            ctx.ok('files-parsed-faithfully')
    # build the node from the merged configuration
    kit = Kit({k: v for k, v in merged.items()})
    text = '\n'.join(kit.errors)
    for i, m in enumerate(case['mods']):
        name = f'm{i}'
        plan, errors = analyse(m)
        # (a configuration file can not leave out the description: Mod() demands it, the writer above supplies one)
        errors = [e for e in errors if e['kind'] != 'no-description']
        must_fail = bool(errors) or any(info.get('vclass') == 'wrongtype' for info in plan.values())
        may_fail = any(info.get('vclass') == 'range' for info in plan.values())
        reported = f'module {name}:' in text or f'creating {name}' in text
        registered = name in kit.modules
        ctx.ev()
        if must_fail:
            if registered:
                ctx.finding('files:failing-module-registered', case, f'{name}: {errors!r}')
            elif not reported:
                ctx.finding('files:failing-module-not-reported', case, f'{name} missing in {text[:300]!r}')
            else:
                ctx.ok('files-all-failing-modules-reported')
        elif not may_fail:
            if not registered or reported:
                ctx.finding('files:valid-module-not-registered', case, f'{name}: {text[:300]!r}')
            else:
                ctx.ok('files-valid-module-registered')
    shutil.rmtree(work, ignore_errors=True)
    sys.modules.pop('frappy_vfgen', None)


NAME_FIXED = ['m', 'M0', 'a_b', 'a' * 63, 'a' * 64, '', '1a', '_a', 'a b', 'a-b', 'a.b', 'a:b', 'abc\n', '\nabc', 'abc ', 'ä', 'aä', 'a\x00', 'a\r', 'a\u2028']


def check_name(ctx, case):
    """module names in a configuration: letters, digits and underscores, starting with a letter, at most 63 characters - anything
    else (it would end up in every specifier on the wire) is a configuration error"""
    import re
    from frappy.config import Mod
    from frappy.errors import ConfigError
    name = case.get('name')
    if not isinstance(name, str):
        return
    ctx.ev()
    legal = re.fullmatch(r'[a-zA-Z][a-zA-Z0-9_]{0,62}', name) is not None
    try:
        Mod(name, 'frappy.modules.Readable', 'a module')
        accepted = True
    except ConfigError:
        accepted = False
    except Exception as e:   # noqa
        ctx.finding(f'module-name:raises:{type(e).__name__}', case, repr(e)[:200])
        return
    if accepted and not legal:
        what = 'white-space' if any(c.isspace() for c in name) else 'other'
        ctx.finding(f'module-name:illegal-name-accepted:{what}', case, repr(name))
    elif legal and not accepted:
        ctx.finding('module-name:legal-name-refused', case, repr(name))
    else:
        ctx.ok('module-name')
    if not legal:
        ctx.nt(('name', name))


def check_target_range(ctx, case):
    """a configuration which narrows the value range of a Writable below its target range is refused - for every module of the
    class, in whatever order the modules are created (the check belongs to the module, not to its class)"""
    from frappy.core import Writable, Parameter, FloatRange

    class W(Writable):
        value = Parameter(datatype=FloatRange(0, 10))
        target = Parameter(datatype=FloatRange(0, 10))

        def write_target(self, value):
            return value
    order = case.get('order') or ['good', 'bad']
    if sorted(order) != ['bad', 'good'] and sorted(order) != ['bad', 'good', 'good']:
        return
    ctx.ev()
    cfg = {}
    for i, kind in enumerate(order):
        cfg[f'w{i}'] = {'cls': W, 'description': kind}
        if kind == 'bad':
            cfg[f'w{i}']['value'] = {'max': 5}
    kit = Kit(cfg)
    bad = [f'w{i}' for i, kind in enumerate(order) if kind == 'bad']
    good = [f'w{i}' for i, kind in enumerate(order) if kind == 'good']
    if any(b in kit.modules for b in bad) or not any(b in ' '.join(kit.errors) for b in bad):
        ctx.finding('bad-config-accepted:target-range-beyond-value-range', case, f'order {order!r}: modules {sorted(kit.modules)!r}, errors {kit.errors!r}'[:300])
    elif any(g not in kit.modules for g in good):
        ctx.finding('valid-config-rejected:target-range', case, repr(kit.errors)[:300])
    else:
        ctx.ok('target-range-checked-per-module')
    ctx.nt(('target-range', tuple(order)))


def check_hidden_inverted(ctx, case):
    """inverted limits are a configuration error also for parameters (or whole modules) which are not exported"""
    from frappy.core import Module, Parameter, FloatRange, StringType, ArrayOf, IntRange
    how, kind = case.get('how'), case.get('dt')
    dts = {'double': (lambda: FloatRange(0, 10), {'min': 8, 'max': 2}, 1.0), 'string': (lambda: StringType(0, 10), {'minchars': 8, 'maxchars': 2}, 'abc'),
           'array': (lambda: ArrayOf(IntRange(0, 9), 0, 5), {'minlen': 4, 'maxlen': 1}, [1])}
    if kind not in dts or how not in ('hidden-class', 'hidden-cfg', 'hidden-module', 'exported'):
        return
    mk, props, default = dts[kind]
    ctx.ev()
    cls = type('H', (Module,), {'p': Parameter('internal parameter', mk(), default=default, readonly=False, export=how != 'hidden-class')})
    pcfg = dict(props)
    if how == 'hidden-cfg':
        pcfg['export'] = False
    cfg = {'h': {'cls': cls, 'description': 'module', 'p': pcfg}}
    if how == 'hidden-module':
        cfg['h']['export'] = False
    kit = Kit(cfg)
    if 'h' in kit.modules or not kit.errors:
        ctx.finding(f'bad-config-accepted:inverted:{how}', case, f'{props!r} accepted; errors {kit.errors!r}')
    else:
        ctx.ok('inverted-limits-refused')
    ctx.nt(('hidden-inverted', how, kind))


def check_datatype_order(ctx, case):
    """a datatype and datatype properties configured together: the properties apply to the configured datatype, in whatever
    order the entries of the Param are written"""
    from frappy.core import Module, Parameter, FloatRange, IntRange, StringType
    kinds = {'double': (lambda: FloatRange(0, 10), lambda: FloatRange(0, 100), {'max': 5, 'unit': 'K'}, 2.0, {'type': 'double', 'min': 0.0, 'max': 5.0, 'unit': 'K'}),
             'int': (lambda: IntRange(0, 10), lambda: IntRange(0, 100), {'max': 50}, 20, {'type': 'int', 'min': 0, 'max': 50}),
             'string': (lambda: StringType(0, 10), lambda: StringType(0, 100), {'maxchars': 50}, 'x' * 20, {'type': 'string', 'maxchars': 50})}
    kind, order = case.get('dt'), case.get('order')
    if kind not in kinds or order not in ('datatype-first', 'datatype-last', 'datatype-middle'):
        return
    ctx.ev()
    mk_cls, mk_cfg, props, value, want = kinds[kind]
    cls = type('D', (Module,), {'a': Parameter('a', mk_cls(), default=mk_cls()(1 if kind != 'string' else 'a'), readonly=False)})
    items = list(props.items())
    pos = {'datatype-first': 0, 'datatype-last': len(items), 'datatype-middle': 1}[order]
    items.insert(pos, ('datatype', mk_cfg()))
    entry = dict(items + [('value', value)])
    kit = Kit({'d': {'cls': cls, 'description': 'module', 'a': entry}})
    if kit.errors:
        ctx.finding(f'valid-config-rejected:datatype-with-properties:{order}', case, repr(kit.errors)[:300])
        return
    got = json.loads(json.dumps(kit.describe()))['modules']['d']['accessibles']['_a']['datainfo']
    if any(got.get(k) != v for k, v in want.items()):
        ctx.finding(f'configured-datatype-property-lost:{order}', case, f'entries {[k for k, _ in items]!r}: described {got!r}, expected {want!r}')
    elif rm.canon(kit.modules['d'].a) != rm.canon(value):
        ctx.finding(f'configured-value-not-applied:datatype-with-properties:{order}', case, repr(kit.modules['d'].a))
    else:
        ctx.ok('datatype-and-properties-configured')
    ctx.nt(('datatype-order', kind, order))


def run_shard(ctx, shard):
    if shard['idx'] == 'names':
        for kind in ('double', 'int', 'string'):
            for order in ('datatype-first', 'datatype-last', 'datatype-middle'):
                check_datatype_order(ctx, {'kind': 'datatype-order', 'dt': kind, 'order': order})
        for how in ('exported', 'hidden-class', 'hidden-cfg', 'hidden-module'):
            for kind in ('double', 'string', 'array'):
                check_hidden_inverted(ctx, {'kind': 'hidden-inverted', 'how': how, 'dt': kind})
        for order in (['good', 'bad'], ['bad', 'good'], ['good', 'good', 'bad'], ['good', 'bad', 'good']):
            check_target_range(ctx, {'kind': 'target-range', 'order': order})
        for name in NAME_FIXED:
            check_name(ctx, {'kind': 'name', 'name': name})
        drive(st.builds(lambda n: {'kind': 'name', 'name': n}, st.text('aZ_9 \n\t-.:ä\r', max_size=8)), lambda case: check_name(ctx, case),
              shard['n'], ctx.seed * 1000 + 98)
        return
    if shard['idx'] == 'files':
        drive(files_case(), lambda case: check_files(ctx, case), shard['n'], ctx.seed * 1000 + 99)
        return
    drive(cfg_case(), lambda case: check_cfg(ctx, case), shard['n'], ctx.seed * 1000 + shard['idx'])


def run_case(ctx, case):
    if case['kind'] == 'files':
        check_files(ctx, case)
    elif case['kind'] == 'name':
        check_name(ctx, case)
    elif case['kind'] == 'target-range':
        check_target_range(ctx, case)
    elif case['kind'] == 'hidden-inverted':
        check_hidden_inverted(ctx, case)
    elif case['kind'] == 'datatype-order':
        check_datatype_order(ctx, case)
    else:
        if case.get('cfg', {}).get('description') == '':
            return      # (shrinker artefact: an empty description is left out of the description of the node)
        check_cfg(ctx, case)
