"""C01 - datatype validation is sound, canonical and total

domain  : datatype trees (depth <= 3) x candidate catalogues (every JSON kind at every position,
          boundary / just-outside-tolerance numbers, wrong lengths, unknown/missing/null members,
          NaN/Infinity) x previous values (none, same, shorter, longer, other)
oracle  : vf.refmodel (three-valued status + 'denotes' relation), totality, idempotence
"""
import json
import math
import traceback

from hypothesis import strategies as st

from vf import refmodel as rm
from vf import specs
from vf.runner import drive

PROPERTY = 'C01'
LEVEL = 'exploration'
RULE = ('Hypothesis draws a datatype tree T (all ten kinds at every position, limits from boundary '
        'catalogues) and two members of its value set; a deterministic catalogue derives candidates from T '
        '(every JSON kind, limits +-ulp/+-tolerance, lengths +-1, unknown/missing/null members, one position of '
        'a valid container replaced by each candidate of the member type) for the wire path '
        'validate(import_value(x), prev) and the driver path validate(x, prev). non-trivial: the candidate is '
        'not the plain valid value, or a previous value of another shape is present; distinct by (T, side, x, prev).')
ASSUMPTIONS = ['refmodel.py is the reference for the SECoP value sets and the documented leniencies',
               'scaled-integer grid indices are bounded by 2^50 so that index arithmetic is exact in doubles']

N_EXAMPLES = {'quick': 250, 'thorough': 3000}


def shards(tier, seed):
    return [{'kind': 'leafmatrix'}] + [{'kind': 'trees', 'idx': i, 'n': N_EXAMPLES[tier]} for i in range(15)]


def frappy_frame(exc):
    tb = traceback.extract_tb(exc.__traceback__)
    for fr in reversed(tb):
        if '/frappy/' in fr.filename:
            return f'{fr.filename.rsplit("/", 1)[-1]}:{fr.name}'
    return 'outside-frappy'


def has_none(x):
    if isinstance(x, dict):
        return any(has_none(v) for v in x.values())
    if isinstance(x, (list, tuple)):
        return any(has_none(v) for v in x)
    return x is None


def observe(dt, x, prev, side):
    from frappy.errors import BadValueError
    try:
        v = dt.import_value(x) if side == 'wire' else specs.materialise(x)
        return ('ok', dt.validate(v, prev))
    except BadValueError as e:
        return ('bad', type(e).__name__)
    except Exception as e:   # noqa - totality clause
        return ('exc', type(e).__name__, frappy_frame(e))


def check_call(ctx, T, dt, x, why, case):
    """__call__, the driver-side conversion (no range check documented): total, of the right shape and exportable"""
    from frappy.errors import BadValueError
    try:
        called = dt(specs.materialise(x))
        ctx.ok('call-total')
        # what the driver-side conversion returns is what gets cached: apart from the range (not checked here,
        # as documented) it must be a value of the type, i.e. validate may refuse it with a range error only
        back = observe(dt, called, None, 'drv')
        if back[0] == 'bad' and back[1] != 'RangeError' or back[0] == 'exc':
            ctx.finding(f'call:result-not-of-the-type:{T["k"]}:{back[1]}:{why or "valid"}', case, f'{x!r} -> {called!r}, validate: {back!r}')
        else:
            ctx.ok('call-shape')
        # ... and it is sent in updates and replies: it must have a strict JSON form (no NaN / Infinity tokens)
        try:
            # (None for an optional struct member means "left out" - meant for command arguments; such a struct is
            # incomplete as a parameter value by design, not looked at here)
            if not has_none(x):
                json.dumps(dt.export_value(called), allow_nan=False)
                ctx.ok('call-result-exportable')
        except Exception as e:   # noqa
            ctx.finding(f'call:result-not-exportable:{T["k"]}:{type(e).__name__}:{why or "valid"}', case, f'{x!r} -> {called!r}: {e!r}'[:300])
    except BadValueError:
        pass
    except Exception as e:  # noqa
        ctx.finding(f'total:call:{type(e).__name__}:{frappy_frame(e)}:{why or T["k"]}', case, repr(e))


def evaluate(ctx, T, dt, side, label, x, prevlabel, prev_plain, prev):
    """one (T, x, prev) evaluation of all clauses"""
    ctx.ev()
    case = {'kind': 'tvp', 'T': T, 'side': side, 'x': x, 'prev': prev_plain, 'label': label, 'prevlabel': prevlabel}
    verdict, why = rm.status(T, x, side)
    out = observe(dt, x, prev, side)
    ctx.label(f'status:{verdict}', f'outcome:{out[0]}', f'side:{side}', f'prev:{prevlabel}')
    if label != 'valid-plain' or prevlabel not in ('none', 'same'):
        ctx.nt((specs.tojson(T), side, specs.tojson(x), specs.tojson(prev_plain)))
    ctx.sample({'T': T, 'side': side, 'candidate': label, 'x': x, 'prev': prev_plain, 'status': verdict,
                'outcome': list(out[:2]) if out[0] != 'ok' else ['ok', rm.canon(out[1])]}, every=4999)
    if side == 'drv' and prevlabel == 'none':
        check_call(ctx, T, dt, x, why, case)
    if out[0] == 'exc':
        ctx.finding(f'total:{side}:{out[1]}:{out[2]}:{why or T["k"]}', case, f'{out} for {x!r}')
        return
    ctx.ok('total')
    if out[0] == 'bad':
        if verdict == 'A':
            ctx.finding(f'noaccept:{side}:{T["k"]}:{out[1]}:prev-{prevlabel}', case, f'valid {x!r} rejected: {out}')
        else:
            ctx.ok('reject')
        return
    r = rm.canon(out[1])
    if verdict == 'R':
        ctx.finding(f'noreject:{side}:{why}', case, f'{x!r} accepted as {r!r}')
        return
    ctx.ok('accept')
    prev_c = rm.canon(prev) if prev is not None else None
    problems = rm.denotes(T, x, prev_c, r, side)
    if problems:
        for clause, reason in sorted(set(problems)):
            ctx.finding(f'{clause}:{side}:{reason}', case, f'{x!r} (prev {prev_c!r}) -> {r!r}')
    else:
        ctx.ok('sound+fidelity')
    # idempotence: validating an already validated value returns it unchanged
    again = observe(dt, out[1], None, 'drv')
    if again[0] != 'ok' or rm.canon(again[1]) != r or type(again[1]) is not type(out[1]):
        if not problems:
            ctx.finding(f'idem:{side}:{T["k"]}:{again[0]}', case, f'{x!r} -> {out[1]!r} -> {again!r}')
    else:
        ctx.ok('idempotent')


def run_tree(ctx, T, vbase, vother):
    """all catalogue candidates of one tree, both sides, several previous values"""
    dt = specs.build(T)
    for k in rm.kinds(T):
        ctx.label(f'kind:{k}')
    ctx.label(f'depth:{rm.depth(T)}')
    prevs = []
    for plabel, pplain in specs.prev_variants(T, vbase) + [('other', vother)]:
        if pplain is None:
            prevs.append((plabel, None, None))
            continue
        o = observe(dt, pplain, None, 'drv')
        if o[0] == 'ok':
            prevs.append((plabel, pplain, o[1]))
        else:
            case = {'kind': 'tvp', 'T': T, 'side': 'drv', 'x': pplain, 'prev': None, 'label': 'valid-gen', 'prevlabel': 'none'}
            verdict, why = rm.status(T, pplain, 'drv')
            if verdict == 'A':
                ctx.finding(f'noaccept:drv:{T["k"]}:{o[1]}:prev-none', case, f'generated member {pplain!r} of the value set: {o}')
    for side in ('wire', 'drv'):
        base = rm.to_wire(T, vbase) if side == 'wire' else vbase
        for label, x in specs.catalogue(T, side, 0, base):
            for plabel, pplain, prev in prevs:
                if prev is not None and label.startswith('kind:'):
                    continue
                evaluate(ctx, T, dt, side, label, x, plabel, pplain, prev)


@st.composite
def tree_case(draw, max_depth=3):
    T = draw(specs.tree_spec(max_depth))
    return {'kind': 'tree', 'T': T, 'vbase': draw(specs.valid_value(T, True)), 'vother': draw(specs.valid_value(T, True))}


def leaf_matrix(ctx):
    """leaf kinds x limit catalogues x full candidate catalogue, enumerated (not sampled)"""
    n = 0
    lims = specs.D_LIMITS
    for i, lo in enumerate(lims):
        for hi in lims[i:]:
            if lo is None or hi is None or lo <= hi:
                for a, r in ((0.0, 1.2e-7), (1e-3, 0.0), (0.5, 1e-3)):
                    T = {'k': 'double', 'min': lo, 'max': hi, 'abs': a, 'rel': r}
                    v = rm.default_value(T)
                    run_tree(ctx, T, v, v)
                    n += 1
    for i, lo in enumerate(specs.I_LIMITS):
        for hi in specs.I_LIMITS[i:]:
            T = {'k': 'int', 'min': lo, 'max': hi}
            run_tree(ctx, T, rm.default_value(T), hi)
            n += 1
    for s in specs.S_SCALES:
        for i, lo in enumerate(specs.S_LIMITS):
            for hi in specs.S_LIMITS[i:]:
                T = {'k': 'scaled', 'scale': s, 'lo': lo, 'hi': hi}
                run_tree(ctx, T, rm.default_value(T), float(hi * s))
                n += 1
    for members in ({'a': 0}, {'off': 0, 'on': 1}, {'x': -5, 'Y2': 300, 'idle': 7}):
        T = {'k': 'enum', 'members': members}
        run_tree(ctx, T, rm.default_value(T), sorted(members.values())[-1])
        n += 1
    run_tree(ctx, {'k': 'bool'}, False, True)
    for lo in (0, 1, 3):
        for hi in (None, lo, lo + 2, 10):
            if hi == 0:
                continue
            for utf8 in (False, True):
                T = {'k': 'string', 'min': lo, 'max': hi, 'utf8': utf8}
                run_tree(ctx, T, rm.default_value(T), 'x' * lo)
                n += 1
        for hi in (max(lo, 1), 3, 4, 10, 255):
            T = {'k': 'blob', 'min': lo, 'max': max(hi, lo)}
            run_tree(ctx, T, rm.default_value(T), b'\xff' * lo)
            n += 1
    ctx.extra['leaf_specs_enumerated'] = n
    # clamp is the median of its arguments for every ordering
    from frappy.lib import clamp
    vals = [-math.inf, -2.5, -1, 0, 0.0, 1, 3, 1e300, math.inf]
    for a in vals:
        for b in vals:
            for c in vals:
                ctx.ev()
                if clamp(a, b, c) != sorted([a, b, c])[1]:
                    ctx.finding('clamp:not-median', {'kind': 'clamp', 'args': [a, b, c]}, f'clamp{(a, b, c)} = {clamp(a, b, c)}')
                else:
                    ctx.ok('clamp-median')


def strict_by_config(ctx, spelling):
    """the general configuration file says lazy_number_validation = <a spelling of false>: a JSON string is no number"""
    import os
    import shutil
    from frappy.lib import generalConfig
    from frappy.errors import BadValueError
    from vf.runner import VERIF
    case = {'kind': 'generalconfig', 'spelling': spelling}
    if not isinstance(spelling, str) or spelling.strip().lower() not in ('false', '0', 'no', 'off'):
        return
    ctx.ev()
    workdir = os.path.join(VERIF, '.work', f'c01cfg-{os.getpid()}')
    os.makedirs(workdir, exist_ok=True)
    saved = generalConfig._config
    try:
        path = os.path.join(workdir, 'generalConfig.cfg')
        with open(path, 'w', encoding='utf-8') as f:
            f.write(f'[FRAPPY]\nlogdir = {workdir}\npiddir = {workdir}\nconfdir = {workdir}\nlazy_number_validation = {spelling}\n')
        generalConfig.init(path)
        accepted = []
        for T, x in (({'k': 'double'}, '5'), ({'k': 'int', 'min': 0, 'max': 9}, '5'), ({'k': 'scaled', 'scale': 0.1, 'lo': 0, 'hi': 100}, '5')):
            try:
                accepted.append((T['k'], x, specs.build(T).validate(x)))
            except BadValueError:
                pass
            except Exception as e:   # noqa - neither refused nor converted
                accepted.append((T['k'], x, repr(e)))
        if accepted:
            ctx.finding('reinterpret:string-as-number-although-configured-strict', case, f'lazy_number_validation = {spelling}: {accepted!r}')
        else:
            ctx.ok('strict-by-config')
        ctx.nt(('generalconfig', spelling))
    finally:
        generalConfig._config = saved
        shutil.rmtree(workdir, ignore_errors=True)


def run_shard(ctx, shard):
    if shard['kind'] == 'leafmatrix':
        leaf_matrix(ctx)
        for spelling in ('False', 'false', '0', 'no', 'off', 'FALSE', ' False '):
            strict_by_config(ctx, spelling)
        return
    depth = 3 if shard['idx'] % 3 else 2
    drive(tree_case(depth), lambda case: run_case(ctx, case), shard['n'], ctx.seed * 1000 + shard['idx'])


def run_case(ctx, case):
    if case['kind'] == 'tree':
        run_tree(ctx, case['T'], case['vbase'], case['vother'])
    elif case['kind'] == 'tvp':
        T = case['T']
        dt = specs.build(T)
        prev = None
        if case.get('prev') is not None:
            o = observe(dt, case['prev'], None, 'drv')
            if o[0] != 'ok':
                return
            prev = o[1]
        evaluate(ctx, T, dt, case['side'], case.get('label', '?'), case['x'], case.get('prevlabel', 'none'), case.get('prev'), prev)
    elif case['kind'] == 'generalconfig':
        strict_by_config(ctx, case.get('spelling'))
    elif case['kind'] == 'clamp':
        from frappy.lib import clamp
        a, b, c = case['args']
        if clamp(a, b, c) != sorted([a, b, c])[1]:
            ctx.finding('clamp:not-median', case, '')
