"""C04 - no invalid, forbidden or out-of-limit request ever reaches the driver

generated module classes x request histories through the real TCPRequestHandler; a reference node
model (names, flags, current values, current dynamic limits, check thresholds) + refmodel predict
the outcome class; recording drivers show what reached the hardware.
"""
import json

from hypothesis import strategies as st

from vf import refmodel as rm
from vf import specs, classgen
from vf.nodekit import Kit, FakeConn, parse_lines
from vf.runner import drive

PROPERTY = 'C04'
LEVEL = 'exploration'
RULE = ('Hypothesis draws 1-2 module classes (parameters over all datatypes with readonly/constant/export flags, write '
        'methods returning value/None/altered value, limit parameters, check hooks, commands with none/scalar/array/tuple/'
        'struct arguments) and a history of 1-20 request lines (valid, invalid by type/range/limit/hook/name/access, limit '
        'moves) sent through the real TCP request handler. Each request is one evaluation. non-trivial: the request is not a '
        'plain valid change (invalid class, partial struct, null member, near a moved limit, name/access error); distinct by '
        '(class specs, request prefix).')
ASSUMPTIONS = ['reference node model in this file; payload verdicts by vf/refmodel.py',
               'check_ hooks are driver code: only write_* and command functions count as "reaching the driver"']

N_EXAMPLES = {'quick': 400, 'thorough': 8000}
BADVALUE = {'WrongType', 'RangeError'}


def shards(tier, seed):
    return [{'idx': i, 'n': N_EXAMPLES[tier]} for i in range(16)]


def model_params(cs):
    """parameters of the reference node model, incl. the generated limit parameters -> {wire: info}"""
    res = {}
    for p in cs['params']:
        p = dict(p, T=classgen.effective_T(p))    # the configuration may move the limits declared in the class ...
        if 'cfg_export' in p:                      # ... and hide, show or rename the parameter
            p['export'] = p['cfg_export']
        if 'cfg_constant' in p:                    # ... or turn it into a constant
            p['constant'] = True
        res[p['name']] = dict(p, wire=classgen.wire_name(p['name'], p.get('export', True)))
        lim = p.get('limits')
        extra = []
        if lim in ('min', 'minmax'):
            extra.append((p['name'] + '_min', p['T']))
        if lim in ('max', 'minmax'):
            extra.append((p['name'] + '_max', p['T']))
        if lim == 'limits':
            extra.append((p['name'] + '_limits', {'k': 'tuple', 'of': [p['T'], p['T']]}))
        for n, T in extra:
            res[n] = {'name': n, 'T': T, 'readonly': False, 'constant': False, 'write': None, 'wire': '_' + n, 'islimit': True}
    return res


@st.composite
def history_case(draw):
    classes = [draw(classgen.class_spec(ro_variants=True)) for _ in range(draw(st.integers(1, 2)))]
    reqs = []
    for _ in range(draw(st.integers(1, 20))):
        mi = draw(st.integers(0, len(classes) - 1))
        cs = classes[mi]
        params = model_params(cs)
        kind = draw(st.sampled_from(['change', 'change', 'change', 'change', 'do', 'name', 'limit', 'readfail']))
        readable = [p for p in params.values() if p.get('read') and p['wire'] and not p.get('constant')]
        if kind == 'readfail':
            if readable:
                # a failing read leaves the parameter in an error state (the cached value stays): changes go on as before
                p = draw(st.sampled_from(readable))
                reqs.append({'op': 'readfail', 'mod': mi, 'param': p['name'], 'payload': None})
                continue
            kind = 'change'
        if kind == 'do' and not cs['cmds']:
            kind = 'change'
        if kind == 'limit' and not any(p.get('islimit') for p in params.values()):
            kind = 'change'
        if kind in ('change', 'limit'):
            cands = [p for p in params.values() if bool(p.get('islimit')) == (kind == 'limit')]
            p = draw(st.sampled_from(cands))
            if p['wire'] is None:
                reqs.append({'op': 'raw', 'action': 'change', 'mod': mi, 'spec': f'm{mi}:_{p["name"]}', 'payload': 0, 'why': 'hidden'})
                continue
            T = p['T']
            base = rm.to_wire(T, draw(specs.valid_value(T)))
            if draw(st.integers(0, 2)) == 0:
                payload, label = base, 'valid'
            else:
                cat = specs.catalogue(T, 'wire', 0, base)
                label, payload = draw(st.sampled_from(cat))
            reqs.append({'op': 'change', 'mod': mi, 'param': p['name'], 'payload': payload, 'label': label})
        elif kind == 'do':
            c = draw(st.sampled_from(cs['cmds']))
            wire = classgen.wire_name(c['name'], c.get('export', True))
            if wire is None:
                reqs.append({'op': 'raw', 'action': 'do', 'mod': mi, 'spec': f'm{mi}:_{c["name"]}', 'payload': None, 'why': 'hidden'})
                continue
            if c['arg'] is None:
                label, payload = draw(st.sampled_from([('valid', None), ('valid', None), ('kind:1', 1), ('kind:str', 'x'), ('kind:list', [])]))
            else:
                base = rm.to_wire(c['arg'], draw(specs.valid_value(c['arg'])))
                if draw(st.integers(0, 2)) == 0:
                    payload, label = base, 'valid'
                else:
                    label, payload = draw(st.sampled_from(specs.catalogue(c['arg'], 'wire', 0, base)))
            reqs.append({'op': 'do', 'mod': mi, 'cmd': c['name'], 'payload': payload, 'label': label})
        else:
            pn = cs['params'][0]['name']
            cn = cs['cmds'][0]['name'] if cs['cmds'] else 'c9'
            action, spec, why = draw(st.sampled_from([
                ('change', f'nomod:_{pn}', 'module'), ('do', f'nomod:_{cn}', 'module'), ('change', f'm{mi}:{pn}', 'attrname'),
                ('change', f'm{mi}:_nix', 'unknown'), ('do', f'm{mi}:_nix', 'unknown'), ('do', f'm{mi}:{cn}', 'attrname'),
                ('change', f'm{mi}:_{cn}', 'command-in-change'), ('do', f'm{mi}:_{pn}', 'parameter-in-do'),
                ('do', f'm{mi}', 'no-colon'), ('change', f'm{mi}', 'no-colon'), ('change', f'm{mi}:', 'empty-name'),
                ('do', f'm{mi}:', 'empty-name'), ('change', f'M{mi}:_{pn}', 'module-case')]))
            reqs.append({'op': 'raw', 'action': action, 'mod': mi, 'spec': spec, 'payload': draw(st.sampled_from([0, None, 'x', [1]])), 'why': why})
    return {'kind': 'history', 'classes': classes, 'reqs': reqs}


def snapshot(kit, recs, conn):
    params = {}
    for mname, mobj in kit.modules.items():
        for pname, pobj in mobj.parameters.items():
            params[(mname, pname)] = (rm.canon(pobj.value), repr(pobj.readerror), pobj.timestamp)
    return {'calls': [len(r['calls']) for r in recs], 'params': params, 'conn': len(conn.log)}


def driver_calls(rec, start, end):
    return [c for c in rec['calls'][start:end] if c[0] in ('write', 'do')]


def numeric_value(T, x):
    if T['k'] == 'scaled':
        return x * T['scale']
    if T['k'] == 'int' and isinstance(x, int) and not isinstance(x, bool):
        return x      # exact: integers beyond 2**53 must not be compared as floats
    return float(x)


def clamped(T, v):
    if T['k'] == 'double':
        return min(max(v, rm.dlimits(T)[0]), rm.dlimits(T)[1])
    if T['k'] == 'scaled':
        return min(max(v, T['lo'] * T['scale']), T['hi'] * T['scale'])
    return v


def near(a, b):
    return abs(a - b) <= 1e-9 * max(abs(a), abs(b), 1e-300) * 4 or a == b


def expect_change(cs, p, x, before, mname):
    """-> (verdict, families, why)   verdict in succeed/fail/either"""
    if p.get('constant') or p.get('readonly'):
        return 'fail', {'ReadOnly'}, 'readonly' + (':' + p['ro_how'] if p.get('ro_how') else '')
    T = p['T']
    st_, why = rm.status(T, x, 'wire')
    if st_ == 'R':
        return 'fail', BADVALUE, 'payload:' + why
    verdict = 'succeed' if st_ == 'A' else 'either'
    reason = 'payload-ok' if st_ == 'A' else 'payload:' + why
    if p.get('islimit') and T['k'] == 'tuple' and isinstance(x, list) and len(x) == 2 and all(rm.isnum(e) for e in x):
        lo, hi = (clamped(T['of'][0], numeric_value(T['of'][0], e)) for e in x)   # the pair is compared after validation
        if near(lo, hi) and lo != hi:
            verdict, reason = 'either', 'limits-pair-nearly-equal'
        elif lo > hi:
            return 'fail', {'RangeError'}, 'inverted-limits'
    if partial_without_prev(T, x, before['params'][(mname, p['name'])][0], True):
        # validation may accept it (commands need that), but then it must go through completely
        verdict, reason = 'either', 'partial-struct-element-without-previous'
    if T['k'] in classgen.NUMERIC and rm.isnum(x):
        v = numeric_value(T, x)
        if T['k'] == 'double':   # the driver sees the validated value: clamped when outside by less than the resolution
            v = min(max(v, rm.dlimits(T)[0]), rm.dlimits(T)[1])
        elif T['k'] == 'scaled':
            v = min(max(v, T['lo'] * T['scale']), T['hi'] * T['scale'])
        lims = []
        get = lambda n: before['params'].get((mname, p['name'] + n))   # noqa
        if get('_min'):
            lims.append((get('_min')[0], None))
        if get('_max'):
            lims.append((None, get('_max')[0]))
        if get('_limits'):
            lims.append(tuple(get('_limits')[0]))
        for lo, hi in lims:
            for lim, outside in ((lo, lambda: v < lo), (hi, lambda: v > hi)):
                if lim is None:
                    continue
                if near(v, lim):
                    verdict, reason = 'either', 'at-dynamic-limit'
                elif outside():
                    return 'fail', {'RangeError'}, 'dynamic-limit'
        if p.get('check') is not None:
            thr = numeric_value(T, rm.to_wire(T, p['check'])) if T['k'] == 'scaled' else float(p['check'])
            if near(v, thr) or st_ == 'E':
                verdict, reason = 'either', 'at-check-threshold'
            elif v > thr:
                return 'fail', {'RangeError'}, 'check-hook'
    return verdict, BADVALUE | {'RangeError'}, reason


def partial_without_prev(T, x, prev, top=False):
    """does x contain a struct lacking optional members at a position where there is no previous value?"""
    k = T['k']
    try:
        if k == 'struct':
            if not isinstance(x, dict):
                return False
            prev = prev if isinstance(prev, dict) else None
            for n, t in T['members'].items():
                if n not in x or x[n] is None:
                    if prev is None or n not in prev:
                        return True
                elif partial_without_prev(t, x[n], prev.get(n) if prev else None):
                    return True
            return False
        if k == 'array' and isinstance(x, list):
            prev = prev if isinstance(prev, list) else []
            return any(partial_without_prev(T['of'], e, prev[i] if i < len(prev) else None) for i, e in enumerate(x))
        if k == 'tuple' and isinstance(x, list):
            prev = prev if isinstance(prev, list) else []
            return any(partial_without_prev(t, e, prev[i] if i < len(prev) else None) for i, (t, e) in enumerate(zip(T['of'], x)))
    except (TypeError, AttributeError):
        pass
    return False


def strip_none(v):
    if isinstance(v, dict):
        return {k: strip_none(e) for k, e in v.items() if e is not None}
    return v


def run_history(ctx, case):
    classes = [classgen.build_class(cs, f'G{i}') for i, cs in enumerate(case['classes'])]
    recs = [c.rec for c in classes]
    kit = Kit({f'm{i}': dict({'cls': c, 'description': 'generated'}, **classgen.cfg_overrides(case['classes'][i]))
               for i, c in enumerate(classes)})
    if kit.errors:
        ctx.finding('build:generated-node-refused', {'kind': 'history', 'classes': case['classes'], 'reqs': []}, repr(kit.errors)[:300] + repr(kit.tb)[-600:])
        return
    conn = FakeConn('active')
    kit.dispatcher.handle_request(conn, ('activate', None, None))
    conn.log.clear()
    snaps = []
    marks = []
    chunks = []

    def hook(sock):
        snaps.append(snapshot(kit, recs, conn))
        marks.append(len(sock.out))
    chunks.append(hook)
    for r in case['reqs']:
        if r['op'] == 'readfail':
            wire = model_params(case['classes'][r['mod']])[r['param']]['wire']
            action, spec = 'read', f'm{r["mod"]}:{wire}'
            chunks.append(lambda sock, rec=recs[r['mod']], n=r['param']: rec.setdefault('readfail', set()).add(n))
        elif r['op'] == 'change':
            wire = model_params(case['classes'][r['mod']])[r['param']]['wire']
            action, spec = 'change', f'm{r["mod"]}:{wire}'
        elif r['op'] == 'do':
            c = next(c for c in case['classes'][r['mod']]['cmds'] if c['name'] == r['cmd'])
            action, spec = 'do', f'm{r["mod"]}:{classgen.wire_name(c["name"], c.get("export", True))}'
        else:
            action, spec = r['action'], r['spec']
        line = f'{action} {spec}'
        if r['payload'] is not None or r['op'] == 'change':
            line += ' ' + json.dumps(r['payload'])
        chunks.append(line.encode('utf-8') + b'\n')
        chunks.append(hook)
    out, _ = kit.tcp(chunks)
    for i, r in enumerate(case['reqs']):
        if i + 1 >= len(snaps):
            ctx.finding('handler:died', {'kind': 'history', 'classes': case['classes'], 'reqs': case['reqs'][:i + 1]}, 'handler ended early')
            return
        try:
            replies = parse_lines(out[marks[i]:marks[i + 1]])
        except Exception as e:   # noqa
            replies = [('unparsable', None, repr(e))]
        judge(ctx, case, i, r, snaps[i], snaps[i + 1], replies, recs, kit)


def judge(ctx, case, i, r, before, after, replies, recs, kit):
    ctx.ev()
    sub = {'kind': 'history', 'classes': case['classes'], 'reqs': case['reqs'][:i + 1]}
    mname = f'm{r["mod"]}'
    cs = case['classes'][r['mod']]
    rec = recs[r['mod']]
    if len(replies) != 1:
        ctx.finding(f'reply:count:{len(replies)}', sub, repr(replies)[:300])
        return
    action, spec, data = replies[0]
    newcalls = [c for j, rc in enumerate(recs) for c in driver_calls(rc, before['calls'][j], after['calls'][j])]
    unchanged = before['params'] == after['params'] and before['conn'] == after['conn']
    if r['op'] == 'readfail':
        if action != 'error_read' or data[0] != 'HardwareError':
            ctx.finding('readfail:unexpected-reply', sub, repr(replies)[:200])
        ctx.label('req:readfail')
        return
    if r['op'] == 'raw':
        fam = {'module': {'NoSuchModule'}, 'module-case': {'NoSuchModule'}}.get(r['why'])
        if fam is None:
            fam = {'NoSuchParameter'} if r['action'] == 'change' else {'NoSuchCommand'}
            if r['why'] in ('no-colon', 'empty-name'):
                fam = fam | {'ProtocolError'}
        ctx.label(f'req:name:{r["why"]}')
        ctx.nt((json.dumps(case['classes'], sort_keys=True, default=repr), specs.tojson(case['reqs'][:i + 1])))
        verdict, why = 'fail', 'name:' + r['why']
        expect_action = 'error_' + r['action']
        sig_T = r['action']
    elif r['op'] == 'change':
        p = model_params(cs)[r['param']]
        verdict, fam, why = expect_change(cs, p, r['payload'], before, mname)
        expect_action = 'error_change'
        sig_T = p['T']['k']
        ctx.label(f'req:change:{verdict}', f'why:{why}')
        if r.get('label') != 'valid' or verdict != 'succeed':
            ctx.nt((json.dumps(case['classes'], sort_keys=True, default=repr), specs.tojson(case['reqs'][:i + 1])))
    else:
        c = next(c for c in cs['cmds'] if c['name'] == r['cmd'])
        x = r['payload']
        sig_T = c['arg']['k'] if c['arg'] else 'noarg'
        if c['arg'] is None:
            verdict, why = ('succeed', 'noarg') if x is None else ('fail', 'argument-for-noarg')
        elif x is None:
            verdict, why = 'fail', 'missing-argument'
        else:
            st_, w = rm.status(c['arg'], x, 'wire')
            verdict = {'A': 'succeed', 'R': 'fail', 'E': 'either'}[st_]
            why = 'payload:' + (w or 'ok')
        fam = BADVALUE
        expect_action = 'error_do'
        ctx.label(f'req:do:{verdict}')
        if r.get('label') != 'valid' or verdict != 'succeed':
            ctx.nt((json.dumps(case['classes'], sort_keys=True, default=repr), specs.tojson(case['reqs'][:i + 1])))
    ctx.sample({'request': {k: v for k, v in r.items()}, 'expected': verdict, 'why': why, 'reply': [action, spec, data if not isinstance(data, list) else data[:2]]}, every=397)
    failed = action.startswith('error_')
    if verdict == 'fail' or (verdict == 'either' and failed):
        if not failed:
            ctx.finding(f'accepted:{r["op"]}:{why}', sub, f'reply {replies[0]!r}, driver calls {newcalls!r}')
            return
        if action != expect_action:
            ctx.finding(f'reply:action:{action}', sub, repr(replies[0])[:200])
        errcls = data[0] if isinstance(data, list) and data else None
        if errcls not in fam:
            ctx.finding(f'errorclass:{r["op"]}:{why}:{errcls}', sub, f'{replies[0]!r}; expected one of {sorted(fam)}')
        else:
            ctx.ok('error-class')
        if newcalls:
            ctx.finding(f'driver-reached:{r["op"]}:{why}', sub, f'{newcalls!r} although reply {replies[0]!r}')
        else:
            ctx.ok('driver-untouched')
        if not unchanged:
            changed = [k for k in after['params'] if after['params'][k] != before['params'].get(k)]
            ctx.finding(f'state-changed-on-refusal:{r["op"]}:{why}', sub, f'{changed!r} updates {after["conn"] - before["conn"]}')
        else:
            ctx.ok('state-untouched')
        return
    # must succeed (or EITHER and accepted)
    if failed:
        ctx.finding(f'refused:{r["op"]}:{sig_T}:{why}:{data[0] if isinstance(data, list) and data else "?"}', sub, repr(replies[0])[:300])
        return
    if r['op'] == 'change':
        if action != 'changed' or spec != f'{mname}:{p["wire"]}':
            ctx.finding('reply:wrong-success-reply:change', sub, repr(replies[0])[:200])
        want_calls = 1 if p.get('write') else 0
        mine = [c for c in newcalls if c[1] == p['name'] and c[0] == 'write']
        if len(newcalls) != want_calls or len(mine) != want_calls:
            ctx.finding(f'driver-calls:change:{len(newcalls)}-instead-of-{want_calls}', sub, repr(newcalls)[:300])
            return
        prev = before['params'][(mname, p['name'])][0]
        cache = after['params'][(mname, p['name'])][0]
        if want_calls:
            arg = mine[0][2]
            probs = rm.denotes(p['T'], r['payload'], prev, arg, 'wire')
            if probs:
                clause, reason = sorted(set(probs))[0]
                ctx.finding(f'driver-arg:{clause}:{reason}', sub, f'payload {r["payload"]!r} prev {prev!r} -> write_{p["name"]}({arg!r})')
            else:
                ctx.ok('driver-arg-is-validated-value')
            if p['write'] == 'altered':
                expect_cache = None
            else:
                expect_cache = arg
        else:
            probs = rm.denotes(p['T'], r['payload'], prev, cache, 'wire')
            if probs:
                clause, reason = sorted(set(probs))[0]
                ctx.finding(f'cache-after-change:{clause}:{reason}', sub, f'payload {r["payload"]!r} prev {prev!r} -> cache {cache!r}')
            expect_cache = None
        if expect_cache is not None and cache != expect_cache:
            ctx.finding('cache-differs-from-driver-value', sub, f'driver got {expect_cache!r}, cache {cache!r}')
        # reported value is the importable read back
        try:
            dt = kit.modules[mname].parameters[p['name']].datatype
            back = rm.canon(dt.validate(dt.import_value(data[0])))
            if back != cache:
                ctx.finding('reply:value-differs-from-cache', sub, f'reply {data[0]!r} -> {back!r}, cache {cache!r}')
            else:
                ctx.ok('reply-is-readback')
        except Exception as e:   # noqa
            ctx.finding(f'reply:value-not-importable:{type(e).__name__}', sub, f'{data!r}: {e!r}')
    else:
        if action != 'done' or spec != f'{mname}:{classgen.wire_name(c["name"], c.get("export", True))}':
            ctx.finding('reply:wrong-success-reply:do', sub, repr(replies[0])[:200])
        mine = [cl for cl in newcalls if cl[0] == 'do' and cl[1] == c['name']]
        if len(newcalls) != 1 or len(mine) != 1:
            ctx.finding(f'driver-calls:do:{len(newcalls)}-instead-of-1', sub, repr(newcalls)[:300])
            return
        if c['arg'] is not None:
            arg = strip_none(mine[0][2])
            probs = rm.denotes(c['arg'], r['payload'], None, arg, 'wire')
            if probs:
                clause, reason = sorted(set(probs))[0]
                ctx.finding(f'driver-arg:do:{clause}:{reason}', sub, f'payload {r["payload"]!r} -> {c["name"]}({arg!r})')
            else:
                ctx.ok('driver-arg-is-validated-value')
        try:
            if c['result'] is None:
                ok = data[0] is None
            else:
                rdt = specs.build(c['result'])
                ok = rm.canon(rdt.validate(rdt.import_value(data[0]))) == rm.canon(rdt.validate(c['resval']))
            if not ok:
                ctx.finding('reply:do-result-differs', sub, f'{data!r} vs {c.get("resval")!r}')
            else:
                ctx.ok('do-result')
        except Exception as e:   # noqa
            ctx.finding(f'reply:do-result-not-importable:{type(e).__name__}', sub, f'{data!r}: {e!r}')


def run_shard(ctx, shard):
    drive(history_case(), lambda case: run_case(ctx, case), shard['n'], ctx.seed * 1000 + shard['idx'])


def run_case(ctx, case):
    run_history(ctx, case)
