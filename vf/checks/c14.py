"""C14 - state machine: bounded cycles, exactly-once cleanup, last start wins

(1) sequential histories over {cycle, start(A|B, attrs), stop}: exhaustive up to a depth bound for a
    catalogue of state-function programs, exact trace equality with an executable reference model
(2) start/stop injected from a "second thread" between any two executed source lines of a cycle
    (sys.settrace line hook in frappy/lib/statemachine.py, every position enumerated): monitors
(3) module level (HasStates on a Drivable): busy from the start request until the machine is inactive
"""
import sys
import itertools
import threading

from hypothesis import strategies as st

from vf.runner import drive

PROPERTY = 'C14'
LEVEL = 'exploration'
RULE = ('(1) for each program of a catalogue (state behaviours: retry, retry-n-then-next, finish, next, self-chain, non-callable, '
        'raise; cleanup kinds: none, returns None, cleanup sequence with Retry inside, raises, returns garbage) ALL op sequences over '
        '{cycle, start A, start B, stop} up to the depth bound are executed on the real StateMachine and on the reference model and the '
        'traces of state/cleanup calls (name, init flag, attributes, reason) compared; Hypothesis adds random programs and longer '
        'histories. (2) for fixed scenarios a start/stop is injected at EVERY line event of the machine code. (3) generated module level '
        'histories. One evaluation = one history. non-trivial: a stop/start arrives while a cleanup sequence is in progress, or an error '
        'occurs in cleanup, or a chain hits the loop limit; distinct by (program, ops, injection point).')
ASSUMPTIONS = ['reference model written from the documentation in frappy/lib/statemachine.py (Mechanism/Restart/Stop/Cleaning Up)',
               'injection is at source line granularity, skipped while the lock of the machine is held']

DEPTH = {'quick': 7, 'thorough': 9}
N_EXAMPLES = {'quick': 300, 'thorough': 6000}
MAXLOOPS = 4
RETRY, FINISH = 'Retry', 'Finish'


def shards(tier, seed):
    res = [{'part': 'exhaustive', 'prog': i, 'depth': DEPTH[tier]} for i in range(len(PROGRAMS))]
    res += [{'part': 'random', 'idx': i, 'n': N_EXAMPLES[tier]} for i in range(4)]
    res += [{'part': 'inject', 'idx': i, 'of': 4} for i in range(4)]
    res += [{'part': 'module', 'idx': 0, 'n': N_EXAMPLES[tier]}]
    res += [{'part': 'module-inject', 'idx': i} for i in range(len(MODULE_SCENARIOS))]
    return res


# --------------------------------------------------------------------------------------------
# programs

def P(A, B, C=None, K1=None, K2=None, cleanupA='none', cleanupB='none'):
    return {'states': {'A': A, 'B': B, 'C': C or {'kind': 'finish'}, 'K1': K1 or {'kind': 'retry-then', 'n': 1, 'to': 'K2'},
                       'K2': K2 or {'kind': 'finish'}},
            'cleanup': {'A': cleanupA, 'B': cleanupB}}


R = {'kind': 'retry'}
PROGRAMS = [
    P(R, R, cleanupA='seq'),
    P(R, {'kind': 'retry-then', 'n': 2, 'to': None}, cleanupA='seq', cleanupB='returns-none'),
    P({'kind': 'retry-then', 'n': 1, 'to': 'C'}, R, C=R, cleanupA='seq', cleanupB='seq'),
    P({'kind': 'next', 'to': 'C'}, R, C={'kind': 'retry-then', 'n': 1, 'to': None}, cleanupA='returns-none'),
    P({'kind': 'self'}, R, cleanupA='seq'),
    P({'kind': 'self'}, {'kind': 'self'}, cleanupA='none', cleanupB='seq'),
    P({'kind': 'noncallable'}, R, cleanupA='seq'),
    P({'kind': 'raise'}, R, cleanupA='seq', cleanupB='raises'),
    P(R, R, cleanupA='raises', cleanupB='garbage'),
    P(R, R, K1={'kind': 'raise'}, cleanupA='seq', cleanupB='seq'),
    P(R, R, K1={'kind': 'next', 'to': 'K2'}, K2={'kind': 'retry-then', 'n': 2, 'to': None}, cleanupA='seq'),
    P({'kind': 'retry-then', 'n': 1, 'to': 'B'}, {'kind': 'retry-then', 'n': 1, 'to': 'A'}, cleanupA='seq'),
    P(R, R, K1={'kind': 'self'}, cleanupA='seq', cleanupB='none'),
    P({'kind': 'finish'}, {'kind': 'retry-then', 'n': 0, 'to': 'C'}, C={'kind': 'noncallable'}, cleanupA='seq', cleanupB='seq'),
]
OPS = ['c', 'sA', 'sB', 'x']


# --------------------------------------------------------------------------------------------
# the real machine, instrumented through its state functions only

class Real:
    def __init__(self, prog):
        from frappy.lib.statemachine import StateMachine, Retry, Finish
        self.prog = prog
        self.trace = []
        self.counters = {}
        self.Retry, self.Finish = Retry, Finish
        self.funcs = {}
        for name, beh in prog['states'].items():
            self.funcs[name] = self.make_state(name, beh)
        self.sm = StateMachine()
        self.sm.maxloops = MAXLOOPS
        self.nrun = 0
        self.xs = {}
        self.cycle_raised = None

    def make_state(self, name, beh):
        def f(sm):
            if sm.init:
                self.counters[name] = 0
            ret = self.behave(name, beh)
            reason = sm.cleanup_reason
            reason = None if reason is None else 'Error' if isinstance(reason, Exception) else type(reason).__name__
            self.trace.append(('state', name, bool(sm.init), getattr(sm, 'run', None), getattr(sm, 'x', None),
                               ret if isinstance(ret, str) else 'garbage', reason if name.startswith('K') else None))
            if beh['kind'] == 'raise':
                raise ValueError(f'{name} raises')
            if ret == RETRY:
                return self.Retry
            if ret == FINISH:
                return self.Finish
            if ret == 'garbage':
                return 5
            return self.funcs[ret]
        f.__name__ = name
        return f

    def behave(self, name, beh):
        k = beh['kind']
        if k == 'retry':
            return RETRY
        if k == 'finish':
            return FINISH
        if k == 'next':
            return beh['to']
        if k == 'self':
            return name
        if k == 'noncallable':
            return 'garbage'
        if k == 'raise':
            return 'raise'
        n = self.counters.get(name, 0)
        self.counters[name] = n + 1
        if n < beh['n']:
            return RETRY
        return beh['to'] or FINISH

    def make_cleanup(self, kind):
        if kind == 'none':
            return None

        def cleanup(sm):
            reason = type(sm.cleanup_reason).__name__
            if isinstance(sm.cleanup_reason, Exception):
                reason = 'Error'
            self.trace.append(('cleanup', kind, reason, getattr(sm, 'run', None)))
            if kind == 'seq':
                return self.funcs['K1']
            if kind == 'raises':
                raise RuntimeError('cleanup raises')
            if kind == 'garbage':
                return 7
            return None
        return cleanup

    def op(self, o):
        if o == 'c':
            before = len(self.trace)
            try:
                self.sm.cycle()
            except Exception as e:   # noqa - a cycle never raises
                self.cycle_raised = e
            return len(self.trace) - before
        if o == 'x':
            self.sm.stop()
            return 0
        name = o[1]
        self.nrun += 1
        self.xs[self.nrun] = self.nrun * 10
        kw = {'run': self.nrun, 'x': self.nrun * 10}
        cl = self.make_cleanup(self.prog['cleanup'][name])
        if cl is not None:
            kw['cleanup'] = cl
        self.sm.start(self.funcs[name], **kw)
        return 0


# --------------------------------------------------------------------------------------------
# reference model (from the documented semantics)

class Model:
    def __init__(self, prog):
        self.prog = prog
        self.trace = []
        self.cur = None
        self.init = True
        self.cleanup = None        # installed cleanup kind
        self.cleaning = False
        self.pending = None
        self.attrs = {'run': None, 'x': None}
        self.counters = {}
        self.nrun = 0

    def behave(self, name):
        beh = self.prog['states'][name]
        k = beh['kind']
        if k == 'retry':
            return RETRY
        if k == 'finish':
            return FINISH
        if k == 'next':
            return beh['to']
        if k == 'self':
            return name
        if k == 'noncallable':
            return 'garbage'
        if k == 'raise':
            return 'raise'
        n = self.counters.get(name, 0)
        self.counters[name] = n + 1
        if n < beh['n']:
            return RETRY
        return beh['to'] or FINISH

    def do_cleanup(self, reason):
        """-> next state of the cleanup sequence or None"""
        if not self.cleaning:
            self.cleaning = reason
        kind, self.cleanup = self.cleanup, None
        if kind is None:
            return None
        self.trace.append(('cleanup', kind, self.cleaning, self.attrs['run']))
        return 'K1' if kind == 'seq' else None

    def cycle(self):
        for _ in range(2):
            if self.cur is not None:
                restart_pass = False
                for _ in range(MAXLOOPS):
                    if self.pending and not self.cleaning:
                        nxt = self.do_cleanup('Start' if self.pending[0] == 'start' else 'Stop')
                    else:
                        if self.init:
                            self.counters[self.cur] = 0
                        ret = self.behave(self.cur)
                        self.trace.append(('state', self.cur, self.init, self.attrs['run'], self.attrs['x'], ret,
                                           (self.cleaning or None) if self.cur.startswith('K') else None))
                        if ret == 'raise':
                            nxt = self.do_cleanup('Error')
                        else:
                            self.init = False
                            if ret == RETRY:
                                return
                            if ret == FINISH:
                                break
                            if ret == 'garbage':
                                nxt = self.do_cleanup('Error')
                            else:
                                nxt = ret
                    if nxt is None:
                        break
                    self.cur, self.init = nxt, True
                else:
                    nxt = self.do_cleanup('Error')    # too many states chained
                    if nxt:
                        self.cur, self.init = nxt, True
                        restart_pass = True
                if restart_pass:
                    continue
                self.cur, self.init = None, True
            if self.pending:
                action, self.pending = self.pending, None
                self.cleaning = False
                if action[0] == 'start':
                    self.cur, self.init = action[1], True
                    self.attrs.update(run=action[2], x=action[2] * 10)
                    self.cleanup = action[3]

    def op(self, o):
        if o == 'c':
            self.cycle()
        elif o == 'x':
            self.pending = ('stop',)
        else:
            self.nrun += 1
            kind = self.prog['cleanup'][o[1]]
            self.pending = ('start', o[1], self.nrun, None if kind == 'none' else kind)

    @property
    def active(self):
        return self.cur is not None


def nontrivial(trace, ops):
    """a stop/start while a cleanup sequence is in progress, an error inside cleanup, or a chain hitting the loop limit"""
    kinds = [e for e in trace]
    in_cleanup_ops = False
    for i, e in enumerate(kinds):
        if e[0] == 'cleanup' and e[1] in ('raises', 'garbage'):
            return True
        if e[0] == 'state' and e[1].startswith('K') and e[5] in ('raise',):
            return True
    return in_cleanup_ops


def run_sequential(ctx, prog, ops, pi=None):
    ctx.ev()
    real, model = Real(prog), Model(prog)
    case = {'kind': 'seq', 'prog': prog, 'ops': list(ops)}
    pending_during_cleanup = False
    maxcalls = 0
    for i, o in enumerate(ops):
        if o != 'c' and model.cleaning and model.cur is not None:
            pending_during_cleanup = True
        n = real.op(o)
        model.op(o)
        maxcalls = max(maxcalls, n)
        if real.cycle_raised is not None:
            ctx.finding(f'cycle-raises:{type(real.cycle_raised).__name__}', dict(case, ops=list(ops[:i + 1])), repr(real.cycle_raised))
            return
        if n > 2 * MAXLOOPS + 2:
            ctx.finding('cycle:too-many-calls', dict(case, ops=list(ops[:i + 1])), f'{n} calls in one cycle (maxloops {MAXLOOPS})')
        if real.trace != model.trace:
            k = next((j for j, (a, b) in enumerate(zip(real.trace, model.trace)) if a != b), min(len(real.trace), len(model.trace)))
            got = real.trace[k] if k < len(real.trace) else None
            want = model.trace[k] if k < len(model.trace) else None
            what = 'init-flag' if got and want and got[:2] == want[:2] and got[0] == 'state' and got[2] != want[2] else \
                   'attrs' if got and want and got[0] == 'state' and got[:3] == want[:3] and got[3:5] != want[3:5] else \
                   'cleanup' if (got and got[0] == 'cleanup') or (want and want[0] == 'cleanup') else 'state-sequence'
            ctx.finding(f'trace-differs:{what}', dict(case, ops=list(ops[:i + 1])), f'event {k}: implementation {got!r}, reference {want!r}')
            return
        if bool(real.sm.is_active) != model.active:
            ctx.finding('is_active-differs', dict(case, ops=list(ops[:i + 1])), f'{real.sm.is_active} vs {model.active}')
            return
    ctx.ok('trace-equal')
    hit_limit = maxcalls >= MAXLOOPS
    if pending_during_cleanup or hit_limit or nontrivial(real.trace, ops):
        ctx.nt((pi if pi is not None else repr(prog), tuple(ops)))
    ctx.label(f'maxcalls:{maxcalls}')
    if len(real.trace) and ctx._nsample % 5003 == 0 or len(ctx.samples) < 2:
        ctx.sample({'program': prog, 'ops': list(ops), 'trace': real.trace[:12]}, every=1)
    else:
        ctx._nsample += 1


# --------------------------------------------------------------------------------------------
# injection from a "second thread" at every line of the machine code

def run_injected(ctx, prog, ops, inj_op, position):
    """-> number of line events seen (to enumerate the positions); position None = count only"""
    import frappy.lib.statemachine as smmod
    fname = smmod.__file__
    real = Real(prog)
    state = {'n': 0, 'done': position is None, 'at': None}

    def tracer(frame, event, arg):
        if frame.f_code.co_filename != fname:
            return None
        if event == 'line' and frame.f_code.co_name in INJECT_FRAMES:
            if not state['done'] and state['n'] >= position and not real.sm._lock.locked():
                state['done'] = True
                state['at'] = (frame.f_code.co_name, frame.f_lineno)
                sys.settrace(None)
                real.trace.append(('inject', inj_op))
                real.op(inj_op)
                sys.settrace(tracer)
            state['n'] += 1
        return tracer
    events = []
    sys.settrace(tracer)
    try:
        for o in ops:
            if o == 'c':
                real.trace.append(('cycle',))
            else:
                real.trace.append(('op', o))
            real.op(o)
    finally:
        sys.settrace(None)
    if position is None:
        return state['n']
    # settle: enough cycles for any cleanup sequence and the last request
    for _ in range(12):
        real.trace.append(('cycle',))
        real.op('c')
    monitors(ctx, prog, ops, inj_op, position, state['at'], real)
    return state['n']


def monitors(ctx, prog, ops, inj_op, position, at, real):
    ctx.ev()
    case = {'kind': 'inject', 'prog': prog, 'ops': list(ops), 'inj': inj_op, 'position': position}
    where = f'{at[0]}' if at else 'not-reached'
    ctx.label(f'inject-at:{where}')
    if at is None:
        return
    trace = real.trace
    ctx.nt((repr(prog), tuple(ops), inj_op, position))
    if len(ctx.samples) < 5 and position % 37 == 5:
        ctx.sample({'program': prog, 'ops': list(ops), 'inject': inj_op, 'at_line_event': position, 'in': at, 'trace': trace[:14]}, every=1)
    if real.cycle_raised is not None:
        ctx.finding(f'inject:cycle-raises:{type(real.cycle_raised).__name__}:{where}', case, repr(real.cycle_raised))
        return
    # (a) calls per cycle
    n = 0
    for e in trace + [('cycle',)]:
        if e[0] == 'cycle':
            if n > 2 * MAXLOOPS + 2:
                ctx.finding(f'inject:too-many-calls:{where}', case, f'{n} calls in a cycle')
            n = 0
        elif e[0] in ('state', 'cleanup'):
            n += 1
    # attributes: a state call of run r sees exactly the attributes given with r
    for e in trace:
        if e[0] == 'state' and e[3] is not None and e[4] != real.xs.get(e[3]):
            ctx.finding(f'inject:foreign-attributes:{where}', case, f'{e!r}: run {e[3]} was started with x={real.xs.get(e[3])}')
            break
    # (b) init flag: False exactly when the directly preceding call was the same run's state returning Retry
    prev = None
    for e in trace:
        if e[0] == 'state':
            expect_false = prev is not None and prev[0] == 'state' and prev[5] == RETRY and prev[1] == e[1] and prev[3] == e[3]
            if e[2] and expect_false and not any(x[0] == 'inject' for x in trace):
                ctx.finding(f'inject:init-set-without-transition:{where}', case, repr(e))
            if not e[2] and not expect_false:
                ctx.finding(f'inject:init-missing-after-transition:{where}', case, f'{prev!r} then {e!r}')
                break
        if e[0] in ('state', 'cleanup'):
            prev = e
    # (c) cleanup at most once per run, exactly once when the run was interrupted, never interrupted itself
    cleanups = {}
    for e in trace:
        if e[0] == 'cleanup':
            cleanups[e[3]] = cleanups.get(e[3], 0) + 1
    for run, cnt in cleanups.items():
        if cnt > 1:
            ctx.finding(f'inject:cleanup-twice:{where}', case, f'run {run}: {cnt} cleanup calls')
    runs = []
    for e in trace:
        if e[0] == 'state' and e[3] is not None and (not runs or runs[-1] != e[3]):
            runs.append(e[3])
    if len(set(runs)) != len(runs):
        ctx.finding(f'inject:run-resumed-after-other-run:{where}', case, f'order of runs {runs!r}')
    kinds = {}
    nrun = 0
    for e in trace:
        if (e[0] == 'op' and e[1] != 'x') or (e[0] == 'inject' and e[1] != 'x'):
            nrun += 1
            kinds[nrun] = prog['cleanup'][e[1][1]]
    for i, run in enumerate(runs):
        calls = [e for e in trace if e[0] == 'state' and e[3] == run and not e[1].startswith('K')]
        natural_end = calls and calls[-1][5] in (FINISH,)
        interrupted = i + 1 < len(runs) or (not real.sm.is_active and not natural_end)
        errored = calls and calls[-1][5] in ('raise', 'garbage')
        if kinds.get(run, 'none') != 'none' and (interrupted or errored) and not natural_end and cleanups.get(run, 0) != 1:
            # chains hitting the loop limit end by an error as well
            ctx.finding(f'inject:cleanup-missing:{where}', case, f'run {run} (cleanup {kinds.get(run)}) ended without its cleanup; runs {runs!r}')
    # cleanup sequence not interrupted: after a cleanup call only states of its sequence (same run) follow until it ends;
    # it ends with Finish / an error, or when a chain of transitions is cut by the loop limit
    i = 0
    while i < len(trace):
        e = trace[i]
        if e[0] == 'cleanup' and e[1] == 'seq':
            expect = 'K1'
            calls_in_cycle = 1 + sum(1 for f in itertools.takewhile(lambda f: f[0] != 'cycle', reversed(trace[:i])) if f[0] in ('state', 'cleanup'))
            j = i + 1
            while j < len(trace) and expect is not None:
                f = trace[j]
                if f[0] == 'cycle':
                    if calls_in_cycle >= MAXLOOPS and not expect.startswith(RETRY):
                        break     # the chain of transitions was cut by the loop limit: the sequence is over
                    calls_in_cycle = 0
                elif f[0] == 'cleanup':
                    if calls_in_cycle < MAXLOOPS or expect == RETRY:
                        ctx.finding(f'inject:cleanup-during-cleanup:{where}', case, f'{e!r} ... {f!r}')
                    break
                elif f[0] == 'state':
                    if f[1] != expect.replace(RETRY + ':', '') or f[3] != e[3]:
                        if not (calls_in_cycle >= MAXLOOPS and not expect.startswith(RETRY)):
                            ctx.finding(f'inject:cleanup-sequence-interrupted:{where}', case, f'{e!r} ... expected {expect}, got {f!r}')
                        break
                    calls_in_cycle += 1
                    if f[5] == RETRY:
                        expect = RETRY + ':' + f[1]
                    elif f[5] in (FINISH, 'raise', 'garbage'):
                        expect = None
                    else:
                        expect = f[5]
                j += 1
            i = j - 1
        i += 1
    # (d) the last request wins
    reqs = [e for e in trace if e[0] in ('op', 'inject')]
    last = reqs[-1][1] if reqs else None
    if last == 'x':
        if real.sm.is_active:
            ctx.finding(f'inject:active-after-stop:{where}', case, repr(trace[-6:]))
        else:
            ctx.ok('last-stop-wins')
    elif last:
        entered = [e for e in trace if e[0] == 'state' and e[3] == real.nrun]
        if not entered:
            ctx.finding(f'inject:last-start-never-entered:{where}', case, f'run {real.nrun} ({last}) has no state call; tail {trace[-6:]!r}')
        elif entered[0][1] != last[1] or not entered[0][2]:
            ctx.finding(f'inject:last-start-wrong-entry:{where}', case, repr(entered[0]))
        else:
            later_other = [e for e in trace[trace.index(entered[0]):] if e[0] == 'state' and e[3] != real.nrun]
            if later_other:
                ctx.finding(f'inject:older-run-after-last-start:{where}', case, repr(later_other[0]))
            else:
                ctx.ok('last-start-wins')
    ctx.ok('monitors')


INJECT_FRAMES = ('cycle', '_cleanup', '_new_state', '_update_attributes', 'is_active')   # the cycling thread; start/stop are the other one
KINDS = {'retry', 'finish', 'next', 'self', 'noncallable', 'raise', 'retry-then'}


def valid_prog(prog):
    """shrinking must not leave a program with missing states or dangling references"""
    try:
        if set(prog['states']) != {'A', 'B', 'C', 'K1', 'K2'} or set(prog['cleanup']) != {'A', 'B'}:
            return False
        for beh in prog['states'].values():
            if beh['kind'] not in KINDS:
                return False
            if beh['kind'] == 'next' and beh['to'] not in prog['states']:
                return False
            if beh['kind'] == 'retry-then' and (beh['to'] is not None and beh['to'] not in prog['states'] or not isinstance(beh['n'], int)):
                return False
        return all(c in ('none', 'returns-none', 'seq', 'raises', 'garbage') for c in prog['cleanup'].values())
    except (KeyError, TypeError):
        return False


SCENARIOS = [
    ['sA', 'c', 'c', 'c'], ['sA', 'c', 'x', 'c', 'c'], ['sA', 'c', 'sB', 'c', 'c'], ['sA', 'c', 'x', 'c', 'sB', 'c'],
    ['sB', 'c', 'sA', 'c', 'x', 'c'], ['sA', 'sB', 'c', 'c'], ['sA', 'c', 'c', 'x', 'sA', 'c', 'c'],
]


# --------------------------------------------------------------------------------------------
# module level

def make_module(case, statuses):
    import threading as th
    from frappy.core import Drivable, Parameter, FloatRange, BUSY, IDLE
    from frappy.states import HasStates, Retry, Finish, status_code
    from frappy.modulebase import PollInfo
    from frappy.lib import generalConfig
    generalConfig.testinit(omit_unchanged_within=0)

    class M(HasStates, Drivable):
        value = Parameter(datatype=FloatRange(), default=0)
        nretry = 0

        @status_code(BUSY, 'moving')
        def state_a(self, sm):
            if sm.init:
                self.nretry = 0
            self.nretry += 1
            if self.nretry <= case['retries']:
                return Retry
            return self.state_b if case['chain'] else self.final_status(IDLE, 'reached')

        @status_code(BUSY)
        def state_b(self, sm):
            if case['b'] == 'raise':
                raise ValueError('b fails')
            if case['b'] == 'retry':
                return Retry
            if case['b'] == 'bare-finish':
                return Finish      # no final status given: the idle status of the machine applies
            return self.final_status(IDLE, 'done')

        def state_plain(self, sm):     # a first state without status code: BUSY is the default while it runs
            return self.state_a

        nplain = 0

        def state_plain_slow(self, sm):     # ... staying for some cycles
            if sm.init:
                self.nplain = 0
            self.nplain += 1
            if self.nplain <= case['retries'] + 1:
                return Retry
            return self.state_a

        ncl = 0

        def state_cleaning(self, sm):   # a cleanup sequence spanning several cycles
            if sm.init:
                self.ncl = 0
            self.ncl += 1
            if self.ncl <= case.get('cleanup_cycles', 0):
                return Retry
            return None

        def on_stop(self, sm):
            return self.state_cleaning if case.get('cleanup_cycles') else None

        def on_restart(self, sm):
            return self.state_cleaning if case.get('cleanup_cycles') else None

        def on_error(self, sm):
            super().on_error(sm)
            return self.state_cleaning if case.get('cleanup_cycles') else None

        def read_status(self):
            st_ = super().read_status()
            statuses.append(tuple(st_))
            return st_

    srv = type('Srv', (), {})()
    srv.dispatcher = type('D', (), {'announce_update': lambda self, m, p: None})()
    srv.secnode = None

    class L:
        handlers = []

        def debug(self, *a, **k):
            pass
        info = warning = error = exception = debug
    m = M('m', L(), {'description': 'd'}, srv)
    m.initModule()
    m.pollInfo = PollInfo(1, th.Event())
    return m


def module_history(ctx, case):
    ctx.ev()
    statuses = []
    m = make_module(case, statuses)
    key = repr(case)
    expect_busy = False
    stopped = False
    was_active = False
    for i, o in enumerate(case['ops']):
        sub = dict(case, ops=case['ops'][:i + 1])
        mark = len(statuses)
        try:
            if o == 'start':
                m.start_machine({'plain': m.state_plain, 'plain-slow': m.state_plain_slow}.get(case.get('first'), m.state_a))
                expect_busy, stopped = True, False
            elif o == 'stop':
                if m._state_machine.is_active:
                    stopped = True
                m.stop_machine()
            else:
                m.cycle_machine()
        except Exception as e:   # noqa
            ctx.finding(f'module:raises:{type(e).__name__}:{o}', sub, repr(e))
            return
        sm = m._state_machine
        code = int(m.read_status()[0])
        active = sm.is_active or isinstance(sm.next_task, type(sm.next_task)) and sm.next_task is not None and type(sm.next_task).__name__ == 'Start'
        if active:
            if not 300 <= code < 400:
                ctx.finding('module:not-busy-while-running', sub, f'status {m.read_status()!r} while machine active/start pending')
                return
            # every status the module announced during this step, too: a run (or a pending start) existed before and after it
            if was_active or o == 'start':
                idle = [st_ for st_ in statuses[mark:] if not 300 <= int(st_[0]) < 400]
                if idle:
                    ctx.finding('module:non-busy-status-announced-while-running', sub, f'statuses during this step: {statuses[mark:]!r}')
                    return
            ctx.ok('busy-while-running')
        else:
            if 300 <= code < 400:
                ctx.finding('module:busy-although-finished', sub, f'status {m.read_status()!r}')
                return
            if stopped and tuple(m.read_status()) != (100, 'stopped') and case['b'] != 'raise':
                ctx.finding('module:stopped-status-missing', sub, f'status {m.read_status()!r}')
                return
            if not stopped and expect_busy and tuple(m.read_status()) == (100, 'stopped'):
                ctx.finding('module:stopped-status-of-an-earlier-run', sub, f'the run was not stopped, status {m.read_status()!r}')
                return
            ctx.ok('final-status')
        was_active = active
    if 'stop' in case['ops'] and 'start' in case['ops']:
        ctx.nt(key)
    ctx.sample({'module-history': case, 'statuses': statuses[:10]}, every=97)


MODULE_INJECT_FRAMES = ('cycle', '_cleanup', '_new_state', '_update_attributes', 'is_active', 'state_transition', 'cycle_machine',
                        'read_status', 'get_status', 'final_status', 'on_cleanup', 'start_machine', 'stop_machine', 'start', 'stop')


def module_injected(ctx, case, inj, position):
    """a second thread calls stop_machine / start_machine between two lines executed by the cycling thread (module level: the
    status bookkeeping of HasStates included); position None = count the line events only"""
    import frappy.lib.statemachine as smmod
    import frappy.states as stmod
    files = (smmod.__file__, stmod.__file__)
    statuses = []
    m = make_module(case, statuses)
    sm = m._state_machine
    state = {'n': 0, 'done': position is None, 'at': None, 'in_req': False}
    raised = []
    not_busy = []
    rlock = getattr(m, '_request_lock', None)

    def do(o):
        if o == 'start':
            m.start_machine({'plain': m.state_plain, 'plain-slow': m.state_plain_slow}.get(case.get('first'), m.state_a))
        elif o == 'stop':
            m.stop_machine()
        else:
            m.cycle_machine()

    def tracer(frame, event, arg):
        if frame.f_code.co_filename not in files:
            return None
        if event == 'line' and frame.f_code.co_name in MODULE_INJECT_FRAMES:
            # inj == 'cycle': the poll thread cycles between two lines of a request (there is one cycling thread only)
            if (inj == 'cycle') != state['in_req']:
                return tracer
            if not state['done'] and state['n'] >= position and not sm._lock.locked() and not (rlock is not None and rlock.locked()):
                state['done'] = True
                state['at'] = (frame.f_code.co_name, frame.f_lineno)
                sys.settrace(None)
                try:
                    do(inj)
                except Exception as e:   # noqa
                    raised.append(('injected ' + inj, e))
                sys.settrace(tracer)
            state['n'] += 1
        return tracer
    sys.settrace(tracer)
    try:
        for o in case['ops']:
            state['in_req'] = o in ('start', 'stop')
            try:
                do(o)
            except Exception as e:   # noqa
                raised.append((o, e))
                break
            # (a cycle injected after the request was posted may have run the whole machine already: then it is over, legitimately)
            state['in_req'] = inj != 'cycle'    # (nothing is injected into the observation itself)
            status_now = tuple(sm.status)
            started = o == 'start' or (inj == 'start' and state['done'] and not state.get('judged'))
            if inj == 'start' and state['done']:
                state['judged'] = True     # (the step in which the second thread's start request was made)
            if started and (sm.is_active or isinstance(sm.next_task, smmod.Start)) and not 300 <= int(status_now[0]) < 400:
                not_busy.append(status_now)
    finally:
        sys.settrace(None)
    if position is None:
        return state['n']
    ctx.ev()
    sub = dict(case, kind='module-inject', inj=inj, position=position)
    where = state['at'][0] if state['at'] else 'not-reached'
    ctx.label(f'module-inject-at:{where}')
    if state['at'] is None:
        return state['n']
    ctx.nt(('module-inject', repr(case), inj, position))
    if raised:
        o, e = raised[0]
        ctx.finding(f'module-inject:raises:{type(e).__name__}:{where}', sub, f'{o}: {e!r}; {inj} injected in {state["at"]}')
        return state['n']
    if not_busy:
        # the start request returned (the command reply is sent now) with a status telling the run is over already
        ctx.finding(f'module-inject:not-busy-after-start:{inj}:{where}', sub, f'status {not_busy[0]!r} after start_machine; {inj} injected in {state["at"]}')
        return state['n']
    # settle: the machine finishes (or keeps retrying); afterwards status and machine agree
    last = inj if inj in ('start', 'stop') else None
    try:
        for _ in range(14):
            m.cycle_machine()
    except Exception as e:   # noqa
        ctx.finding(f'module-inject:raises-later:{type(e).__name__}:{where}', sub, repr(e))
        return state['n']
    code, text = int(m.read_status()[0]), m.read_status()[1]
    if sm.is_active:
        if not 300 <= code < 400:
            ctx.finding(f'module-inject:not-busy-while-running:{where}', sub, f'status {m.read_status()!r}, {inj} injected in {state["at"]}')
    else:
        if 300 <= code < 400 or text in ('stopping', 'restarting'):
            ctx.finding(f'module-inject:transient-status-left-behind:{inj}:{text if text in ("stopping", "restarting") else "busy"}', sub,
                        f'status {m.read_status()!r} with the machine inactive; {inj} injected in {state["at"]}')
        else:
            ctx.ok('module-inject-consistent')
    return state['n']


MODULE_SCENARIOS = [
    {'retries': 1, 'chain': True, 'b': 'finish', 'cleanup_cycles': 0, 'first': 'coded', 'ops': ['start', 'cycle', 'cycle', 'cycle']},
    {'retries': 2, 'chain': False, 'b': 'finish', 'cleanup_cycles': 1, 'first': 'plain', 'ops': ['start', 'cycle', 'stop', 'cycle', 'cycle', 'cycle']},
    {'retries': 1, 'chain': True, 'b': 'retry', 'cleanup_cycles': 3, 'first': 'coded', 'ops': ['start', 'cycle', 'cycle', 'start', 'cycle', 'cycle', 'stop', 'cycle']},
    {'retries': 0, 'chain': True, 'b': 'raise', 'cleanup_cycles': 1, 'first': 'plain', 'ops': ['start', 'cycle', 'cycle', 'cycle']},
    {'retries': 0, 'chain': True, 'b': 'bare-finish', 'cleanup_cycles': 0, 'first': 'coded', 'ops': ['start', 'cycle', 'stop', 'start', 'cycle', 'cycle']},
    # a restart of a running machine: the old run ends with the new start pending
    {'retries': 3, 'chain': True, 'b': 'retry', 'cleanup_cycles': 0, 'first': 'plain', 'ops': ['start', 'cycle', 'start', 'cycle', 'cycle', 'cycle']},
    {'retries': 3, 'chain': True, 'b': 'retry', 'cleanup_cycles': 1, 'first': 'coded', 'ops': ['start', 'cycle', 'start', 'cycle', 'cycle', 'cycle', 'cycle']},
    # a run ending by itself while a second thread starts the next one, whose first state has no status code for several cycles
    {'retries': 1, 'chain': False, 'b': 'finish', 'cleanup_cycles': 0, 'first': 'plain-slow', 'ops': ['start', 'cycle', 'cycle', 'cycle', 'cycle', 'cycle', 'cycle']},
    {'retries': 0, 'chain': True, 'b': 'bare-finish', 'cleanup_cycles': 0, 'first': 'plain-slow', 'ops': ['start', 'cycle', 'cycle', 'cycle', 'cycle']},
]


@st.composite
def module_case(draw):
    return {'kind': 'module', 'retries': draw(st.integers(0, 3)), 'chain': draw(st.booleans()), 'b': draw(st.sampled_from(['finish', 'retry', 'raise', 'bare-finish'])),
            'cleanup_cycles': draw(st.sampled_from([0, 0, 1, 3])), 'first': draw(st.sampled_from(['coded', 'plain', 'plain-slow'])),
            'ops': draw(st.lists(st.sampled_from(['start', 'stop', 'cycle', 'cycle', 'cycle']), min_size=1, max_size=14))}


BEH = st.one_of(st.just(R), st.just({'kind': 'finish'}), st.just({'kind': 'self'}), st.just({'kind': 'noncallable'}), st.just({'kind': 'raise'}),
                st.builds(lambda to: {'kind': 'next', 'to': to}, st.sampled_from(['A', 'B', 'C'])),
                st.builds(lambda n, to: {'kind': 'retry-then', 'n': n, 'to': to}, st.integers(0, 3), st.sampled_from(['A', 'B', 'C', None])))
KBEH = st.one_of(st.just({'kind': 'finish'}), st.just({'kind': 'raise'}), st.just({'kind': 'self'}), st.just({'kind': 'noncallable'}),
                 st.builds(lambda n, to: {'kind': 'retry-then', 'n': n, 'to': to}, st.integers(0, 3), st.sampled_from(['K2', None])))
CLEANUPS = st.sampled_from(['none', 'returns-none', 'seq', 'seq', 'raises', 'garbage'])


@st.composite
def random_case(draw):
    prog = {'states': {'A': draw(BEH), 'B': draw(BEH), 'C': draw(BEH), 'K1': draw(KBEH),
                       'K2': draw(st.sampled_from([{'kind': 'finish'}, {'kind': 'retry-then', 'n': 2, 'to': None}, {'kind': 'raise'}]))},
            'cleanup': {'A': draw(CLEANUPS), 'B': draw(CLEANUPS)}}
    ops = draw(st.lists(st.sampled_from(['c', 'c', 'c', 'sA', 'sB', 'x']), min_size=1, max_size=24))
    return {'kind': 'seq', 'prog': prog, 'ops': ops}


def run_shard(ctx, shard):
    if shard['part'] == 'exhaustive':
        prog = PROGRAMS[shard['prog']]
        for d in range(1, shard['depth'] + 1):
            for ops in itertools.product(OPS, repeat=d):
                if d > 1 and ops[-1] != 'c':
                    continue      # a history ending in a request adds nothing over its prefix
                run_sequential(ctx, prog, ops, shard['prog'])
        ctx.extra['exhaustive'] = True
        ctx.extra['exhaustive_histories_depth'] = shard['depth']
    elif shard['part'] == 'random':
        drive(random_case(), lambda case: run_sequential(ctx, case['prog'], case['ops']), shard['n'], ctx.seed * 1000 + shard['idx'])
    elif shard['part'] == 'inject':
        jobs = [(pi, si, inj) for pi in range(len(PROGRAMS)) for si in range(len(SCENARIOS)) for inj in ('sA', 'sB', 'x')]
        for n, (pi, si, inj) in enumerate(jobs):
            if n % shard['of'] != shard['idx']:
                continue
            if ctx.tier == 'quick' and (pi + si) % 3:
                continue
            total = run_injected(ctx, PROGRAMS[pi], SCENARIOS[si], inj, None)
            for pos in range(total):
                run_injected(ctx, PROGRAMS[pi], SCENARIOS[si], inj, pos)
    elif shard['part'] == 'module-inject':
        sc = dict(MODULE_SCENARIOS[shard['idx']], kind='module-inject')
        for inj in ('stop', 'start', 'cycle'):
            total = module_injected(ctx, sc, inj, None)
            for pos in range(total):
                module_injected(ctx, sc, inj, pos)
        ctx.extra['module_level_injection_complete'] = True
    else:
        drive(module_case(), lambda case: module_history(ctx, case), shard['n'] * 3, ctx.seed * 1000 + 77)


def run_case(ctx, case):
    if case['kind'] in ('seq', 'inject') and not (valid_prog(case['prog']) and all(o in OPS for o in case['ops'])):
        return
    if case['kind'] == 'seq':
        run_sequential(ctx, case['prog'], case['ops'])
    elif case['kind'] == 'inject':
        run_injected(ctx, case['prog'], case['ops'], case['inj'], case['position'])
    elif case['kind'] == 'module-inject':
        if case.get('inj') in ('start', 'stop', 'cycle') and isinstance(case.get('position'), int) and \
                all(k in case for k in ('retries', 'chain', 'b', 'cleanup_cycles', 'first')) and all(o in ('start', 'stop', 'cycle') for o in case['ops']):
            module_injected(ctx, case, case['inj'], case['position'])
    else:
        module_history(ctx, case)
