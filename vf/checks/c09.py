"""C09 - module classes, instances and configurations are isolated from each other

programs: define a root class, a mixin and subclasses (single and multiple inheritance) with overrides
by Parameter(), bare value, None, plain method over a command, inherit=False, added limits; create
instances with configurations; mutate one instance at run time.  Every program is executed twice,
the second time in a permuted (dependency respecting) order.
"""
import json
import logging

from hypothesis import strategies as st

from vf import refmodel as rm
from vf import specs
from vf.runner import drive

PROPERTY = 'C09'
LEVEL = 'exploration'
RULE = ('Hypothesis draws a program: root class (2-4 parameters, 1 command), optional mixin with partial Parameter() overrides, 1-4 '
        'subclasses (bases chosen among earlier classes, optionally with the mixin first) overriding accessibles by Parameter(...), '
        'bare value, None, plain method, inherit=False or adding limits, 1-4 instances with generated configurations, 0-4 run-time '
        'mutations (datatype property, datatype replacement incl. enum growth, module property). After every step the snapshot '
        '(describe data + verdict vector of probe values per parameter) of everything else must be unchanged; the whole program is '
        're-executed in a permuted order and the final snapshots compared. One evaluation = one step. non-trivial: >= 2 classes '
        'sharing an overridden accessible and >= 1 configured or mutated instance; distinct by program.')
ASSUMPTIONS = ['a subclass shares the Parameter object of its base class when it changes nothing (pinned by test_Override): only '
               'instances are required to own their Parameter/DataType/Enum objects']

N_EXAMPLES = {'quick': 120, 'thorough': 2500}


def shards(tier, seed):
    return [{'idx': i, 'n': N_EXAMPLES[tier]} for i in range(16)]


_SIMPLE = st.one_of(specs.double_spec(), specs.int_spec(), specs.scaled_spec(), specs.enum_spec(), specs.string_spec(),
                    st.just({'k': 'bool'}))
# arrays of simple types: datatype properties set on the array are passed on to the member type
LEAF = st.one_of(_SIMPLE, _SIMPLE, _SIMPLE,
                 st.one_of(specs.double_spec(), specs.int_spec()).map(lambda t: {'k': 'array', 'of': t, 'min': 0, 'max': 3}),
                 st.one_of(specs.double_spec(), specs.int_spec()).map(
                     lambda t: {'k': 'array', 'of': {'k': 'array', 'of': t, 'min': 0, 'max': 2}, 'min': 0, 'max': 2}))


def numeric_leaf(T):
    """the double/int type a 'max' property ends up in (the type itself or the innermost member of arrays)"""
    while T['k'] == 'array':
        T = T['of']
    return T if T['k'] in ('double', 'int') else None


@st.composite
def program(draw):
    nparams = draw(st.integers(2, 4))
    root = {'name': 'A', 'bases': [], 'base': draw(st.sampled_from(['Module', 'Readable'])), 'params': [], 'cmd': True}
    for i in range(nparams):
        T = draw(LEAF)
        root['params'].append({'name': f'p{i}', 'T': T, 'default': draw(specs.valid_value(T)), 'readonly': draw(st.booleans())})
    pnames = [p['name'] for p in root['params']]
    Ts = {p['name']: p['T'] for p in root['params']}
    classes = [root]
    mixin = None
    if draw(st.booleans()):
        mixin = {'name': 'Mix', 'overrides': {}}
        for pn in draw(st.lists(st.sampled_from(pnames), min_size=1, max_size=2, unique=True)):
            mixin['overrides'][pn] = draw(partial_override(Ts[pn]))
    nsub = draw(st.integers(1, 5))
    # most programs concentrate their overrides on one parameter: leaks need several classes touching the same accessible
    focus = draw(st.sampled_from(pnames + [None]))
    # one override object (a module level 'common = Parameter(fmtstr=...)') used in the bodies of several classes
    shared_pool = {}
    for i in range(nsub):
        name = 'BCDEF'[i]
        parent = draw(st.sampled_from([c['name'] for c in classes]))
        c = {'name': name, 'bases': ([mixin['name']] if mixin and draw(st.booleans()) else []) + [parent], 'overrides': {}, 'new': []}
        chosen = draw(st.lists(st.sampled_from(pnames), max_size=3, unique=True))
        if focus and focus not in chosen and draw(st.integers(0, 3)):
            chosen.append(focus)
        for pn in chosen:
            kind = draw(st.sampled_from(['partial', 'partial', 'dtprop', 'bare', 'bare', 'none', 'inherit-false', 'limit', 'shared', 'shared']))
            if kind == 'shared':
                key = pn      # (one object under two different names is not considered: __set_name__ renames it)
                if key not in shared_pool:
                    shared_pool[key] = dict(draw(partial_override(Ts[pn])), shared=f's{len(shared_pool)}')
                c['overrides'][pn] = dict(shared_pool[key])
            elif kind == 'partial':
                c['overrides'][pn] = draw(partial_override(Ts[pn]))
            elif kind == 'dtprop':
                c['overrides'][pn] = draw(partial_override(Ts[pn], 'dtprop'))
            elif kind == 'bare':
                c['overrides'][pn] = {'kind': 'bare', 'value': draw(specs.valid_value(Ts[pn]))}
            elif kind == 'none':
                c['overrides'][pn] = {'kind': 'none'}
            elif kind == 'inherit-false':
                T = draw(LEAF)
                c['overrides'][pn] = {'kind': 'inherit-false', 'T': T, 'default': draw(specs.valid_value(T))}
            elif kind == 'limit' and Ts[pn]['k'] in ('double', 'int'):
                c['overrides'][pn + '_max'] = {'kind': 'limit', 'hidden': draw(st.integers(0, 3)) == 0}     # (hidden: an internal limit)
        if draw(st.booleans()):
            # the command overridden by a plain method, or by a Command which does not inherit the properties
            c['overrides']['cmd'] = {'kind': draw(st.sampled_from(['method', 'method', 'cmd-inherit-false']))}
        if draw(st.integers(0, 2)) == 0:
            # the command with a struct argument, overridden by a plain method with other default arguments
            # ... or by a method decorated again with @Command(description=...), which inherits the struct
            c['overrides']['cmd2'] = {'kind': draw(st.sampled_from(['method2', 'method2', 'redecorated'])), 'defaults': draw(st.sampled_from(['a', 'ab', '']))}
        if draw(st.integers(0, 2)) == 0:
            # a module property overridden by a bare value (possibly on several levels of the chain)
            c['overrides']['chan'] = {'kind': 'prop', 'value': draw(st.sampled_from([1, 2, 7]))}
        if draw(st.booleans()):
            T = draw(LEAF)
            c['new'].append({'name': f'n{name}', 'T': T, 'default': draw(specs.valid_value(T)), 'readonly': False})
        classes.append(c)
    if mixin and draw(st.integers(0, 4)) == 0:
        # the override object of the plain mixin is also used in the body of a class which does not inherit from the mixin
        others = [c for c in classes[1:] if 'Mix' not in c['bases']]
        users = [c for c in classes[1:] if 'Mix' in c['bases']]
        if others and users:
            pn = sorted(mixin['overrides'])[0]
            if mixin['overrides'][pn].get('kind') == 'partial':
                mixin['overrides'][pn] = dict(mixin['overrides'][pn], shared='smix')
                other = draw(st.sampled_from(others))
                other['overrides'][pn] = dict(mixin['overrides'][pn])
                parent = next(c for c in classes if c['name'] == other['bases'][-1])
                if parent['bases'] and 'Mix' not in parent['bases']:
                    # ... and inherits a property there which the root class does not give
                    parent['overrides'][pn] = {'kind': 'partial', 'what': 'group', 'value': 'g1'}
    steps = [{'op': 'define', 'cls': c['name']} for c in classes]
    if mixin:
        steps.insert(0, {'op': 'define', 'cls': 'Mix'})
    unrelated = None
    cand = [p for p in root['params'] if numeric_leaf(p['T'])]     # (arrays too: 'max' ends up in their members)
    if cand and draw(st.integers(0, 2)) == 0:
        # an unrelated class whose parameter is declared with the very same datatype object as a parameter of the root class
        # (a module level constant like UInt8), plus a datatype keyword of its own
        p = draw(st.sampled_from(cand))
        unrelated = {'shares': p['name'], 'max': draw(st.sampled_from([2, 77, 5000])), 'default': p['default']}
        steps.insert(draw(st.integers(0, len(steps))), {'op': 'define', 'cls': 'Z'})
    ninst = draw(st.integers(1, 4))
    for i in range(ninst):
        cname = draw(st.sampled_from([c['name'] for c in classes]))
        cfg = {}
        for pn in draw(st.lists(st.sampled_from(pnames), max_size=2, unique=True)):
            T = Ts[pn]
            how = draw(st.sampled_from(['value', 'max', 'description', 'datatype']))
            if how == 'datatype':
                # the configuration gives a datatype object (one object, used for every module configured so)
                cfg[pn] = {'datatype': {'$T': T}}
            elif how == 'value':
                cfg[pn] = {'value': draw(specs.valid_value(T))}
            elif how == 'max' and numeric_leaf(T):
                cfg[pn] = {'max': draw(st.sampled_from([3, 50, 1000]))}
            else:
                cfg[pn] = {'description': f'configured for i{i}'}
        steps.append({'op': 'create', 'cls': cname, 'inst': f'i{i}', 'cfg': cfg})
    for _ in range(draw(st.integers(0, 4))):
        inst = f'i{draw(st.integers(0, ninst - 1))}'
        pn = draw(st.sampled_from(pnames))
        kind = draw(st.sampled_from(['dtprop', 'replace-dt', 'modprop', 'enum-growth', 'param-prop']))
        m = {'op': 'mutate', 'inst': inst, 'param': pn, 'kind': kind}
        if kind == 'replace-dt':
            m['T'] = draw(LEAF)
        steps.append(m)
    order = draw(st.lists(st.integers(0, 1000), min_size=len(steps), max_size=len(steps)))
    return {'kind': 'program', 'classes': classes, 'mixin': mixin, 'unrelated': unrelated, 'steps': steps, 'order': order}


@st.composite
def partial_override(draw, T, kind=None):
    kind = kind or draw(st.sampled_from(['description', 'default', 'readonly', 'dtprop', 'group']))
    o = {'kind': 'partial', 'what': kind}
    if kind == 'group':      # (a property the root class does not give)
        o['value'] = draw(st.sampled_from(['g1', 'g2']))
    if kind == 'default':
        o['value'] = draw(specs.valid_value(T))
    elif kind == 'readonly':
        o['value'] = draw(st.booleans())
    elif kind == 'dtprop':
        if numeric_leaf(T) and numeric_leaf(T)['k'] == 'double' and draw(st.booleans()):
            o['prop'], o['value'] = 'unit', draw(st.sampled_from(['K', 'mm']))
        elif numeric_leaf(T):
            o['prop'], o['value'] = 'max', draw(st.sampled_from([2, 77, 5000]))
        elif T['k'] == 'string':
            o['prop'], o['value'] = 'maxchars', max(T['min'], draw(st.sampled_from([2, 20])))
        elif T['k'] in ('scaled',):
            o['prop'], o['value'] = 'unit', draw(st.sampled_from(['K', 'mm']))
        else:
            o['what'] = 'description'
    return o


class World:
    """executes the steps of a program with the real metaclass machinery"""

    def __init__(self, prog, tag):
        from frappy.lib import generalConfig
        generalConfig.testinit(omit_unchanged_within=0)
        self.prog = prog
        self.tag = tag
        self.classes = {}
        self.constants = {}
        self.shared = {}
        self.instances = {}
        self.log = logging.getLogger('c09')
        self.srv = type('Srv', (), {})()
        self.srv.dispatcher = type('D', (), {'announce_update': lambda self, m, p: None})()
        self.srv.secnode = None

    def define(self, name):
        from frappy.core import Module, Readable, Parameter, Command, Property, StructOf, IntRange
        from frappy.params import Limit
        if name == 'Mix':
            attrs = {pn: self.make_override(o) for pn, o in self.prog['mixin']['overrides'].items()}
            self.classes[name] = type('Mix', (), attrs)
            return
        if name == 'Z':
            u = self.prog['unrelated']
            def zcmd(self, a=0, b=1):
                """command of the unrelated class, declared with the same argument datatype object"""
                return None
            self.classes[name] = type('Z', (Module,), {'z': Parameter('unrelated', self.constant(u['shares']), max=u['max'], default=u['default']),
                                                       'zcmd': Command(self.constant_arg())(zcmd)})
            return
        c = next(c for c in self.prog['classes'] if c['name'] == name)
        if not c['bases']:
            attrs = {}
            for p in c['params']:
                attrs[p['name']] = Parameter(f"root {p['name']}", self.constant(p['name']), default=p['default'], readonly=p['readonly'])

            def cmd(self):
                """root command"""
                return None
            attrs['cmd'] = Command(group='g0')(cmd)

            def cmd2(self, a, b=1):
                """root command with a struct argument"""
                return None
            attrs['cmd2'] = Command(self.constant_arg())(cmd2)
            attrs['chan'] = Property('a module property', IntRange(0, 100), default=0)
            base = {'Module': Module, 'Readable': Readable}[c['base']]
            self.classes[name] = type(name, (base,), attrs)
            return
        attrs = {}
        for pn, o in c['overrides'].items():
            if pn == 'cmd':
                def cmd(self):
                    """overriding method"""
                    return None
                attrs['cmd'] = Command(inherit=False)(cmd) if o.get('kind') == 'cmd-inherit-false' else cmd
            elif o['kind'] in ('method2', 'redecorated'):
                ns = {}
                sig = {'a': 'a=0, b', 'ab': 'a=0, b=1', '': 'a, b'}[o['defaults']] if o['defaults'] != 'a' else 'b, a=0'
                exec(f'def cmd2(self, {sig}):\n    "overriding method"\n    return None\n', ns)   # noqa
                attrs['cmd2'] = Command(description='decorated again')(ns['cmd2']) if o['kind'] == 'redecorated' else ns['cmd2']
            elif o['kind'] == 'prop':
                attrs['chan'] = o['value']
            elif o['kind'] == 'limit':
                attrs[pn] = Limit(export=False) if o.get('hidden') else Limit()
            else:
                attrs[pn] = self.make_override(o)
        for p in c.get('new', []):
            attrs[p['name']] = Parameter(f"new {p['name']}", specs.build(p['T']), default=p['default'], readonly=False)
        self.classes[name] = type(name, tuple(self.classes[b] for b in c['bases']), attrs)

    def constant_arg(self):
        """the argument datatype object (a module level constant) the commands are declared with"""
        from frappy.core import StructOf, IntRange
        if '$arg' not in self.constants:
            self.constants['$arg'] = StructOf(a=IntRange(0, 9), b=IntRange(0, 9))
        return self.constants['$arg']

    def constant(self, pname):
        """the datatype object (one per world, like a module level constant) the root parameter pname is declared with"""
        if pname not in self.constants:
            T = next(p['T'] for p in self.prog['classes'][0]['params'] if p['name'] == pname)
            self.constants[pname] = specs.build(T)
        return self.constants[pname]

    def make_override(self, o):
        from frappy.core import Parameter
        if o['kind'] == 'bare':
            return o['value']
        if o['kind'] == 'none':
            return None
        if o['kind'] == 'inherit-false':
            return Parameter('not inherited', specs.build(o['T']), default=o['default'], inherit=False)
        if o.get('shared'):
            if o['shared'] not in self.shared:
                self.shared[o['shared']] = self.make_override({k: v for k, v in o.items() if k != 'shared'})
            return self.shared[o['shared']]
        what = o['what']
        if what == 'description':
            return Parameter(description='overridden description')
        if what == 'default':
            return Parameter(default=o['value'])
        if what == 'readonly':
            return Parameter(readonly=o['value'])
        if what == 'group':
            return Parameter(group=o['value'])
        return Parameter(**{o['prop']: o['value']})

    def create(self, step):
        cfg = {'description': f'instance {step["inst"]}'}
        cfg.update({k: dict(v) for k, v in step['cfg'].items()})
        for k, v in cfg.items():
            if isinstance(v, dict) and isinstance(v.get('datatype'), dict) and '$T' in v['datatype']:
                key = '$cfgdt:' + specs.tojson(v['datatype']['$T'])
                if key not in self.constants:
                    self.constants[key] = specs.build(v['datatype']['$T'])
                v['datatype'] = self.constants[key]
        self.instances[step['inst']] = self.classes[step['cls']](step['inst'], self.log, cfg, self.srv)

    def mutate(self, step):
        from frappy.datatypes import EnumType
        from frappy.lib.enum import Enum
        inst = self.instances[step['inst']]
        pobj = inst.parameters.get(step['param'])
        kind = step['kind']
        if kind == 'modprop':
            inst.setProperty('group', 'mutated')
            return
        if pobj is None:
            return
        if kind == 'dtprop':
            for key, val in (('max', 1), ('maxchars', 1), ('unit', 'mutated')):
                try:
                    pobj.datatype.setProperty(key, val)
                    break
                except Exception:   # noqa
                    pass
        elif kind == 'replace-dt':
            pobj.datatype = specs.build(step['T'])
        elif kind == 'param-prop':
            pobj.setProperty('description', 'mutated description')
            pobj.setProperty('visibility', 'expert')
        elif kind == 'enum-growth' and hasattr(pobj.datatype, '_enum'):
            prev = pobj.datatype.export_datatype()['members']
            pobj.datatype = EnumType(Enum(prev, grown=None))

    def run_step(self, step):
        if step['op'] == 'define':
            self.define(step['cls'])
        elif step['op'] == 'create':
            self.create(step)
        else:
            self.mutate(step)


def probes_for(dt):
    kind = type(dt).__name__
    if kind in ('FloatRange', 'IntRange', 'ScaledInteger'):
        return [-1e9, -100, -1, 0, 0.5, 1, 1.5, 2, 3, 5, 50, 77, 100, 1000, 5000, 1e9, 'x']
    if kind == 'StringType':
        return ['', 'a', 'ab', 'abc', 'x' * 10, 'x' * 21, 'ä', 5]
    if kind == 'EnumType':
        return list(range(-6, 8)) + [100, 300, 'off', 'on', 'grown']
    if kind == 'ArrayOf':
        inner = [[v] for v in (-1e9, -1, 0, 1, 2, 3, 50, 77, 1000, 5000, 1e9)] if type(dt.members).__name__ != 'ArrayOf' else \
            [[[v]] for v in (-1e9, -1, 0, 1, 2, 3, 50, 77, 1000, 5000, 1e9)]
        return [[], [1, 2], [1, 2, 3, 4], 'x', 5] + inner
    return [True, False, 0, 1, 2, 'x']


def snap_acc(aobj):
    from frappy.errors import BadValueError
    try:
        exp = json.dumps(aobj.for_export(), sort_keys=True, default=repr)
    except Exception as e:   # noqa
        exp = f'for_export failed: {type(e).__name__}'
    verdicts = None
    dt = getattr(aobj, 'datatype', None)
    if dt is not None and not getattr(dt, 'IS_COMMAND', False):
        verdicts = []
        for x in probes_for(dt):
            try:
                verdicts.append(repr(rm.canon(dt.validate(x))))
            except BadValueError as e:
                verdicts.append(type(e).__name__)
            except Exception as e:   # noqa
                verdicts.append('EXC:' + type(e).__name__)
    export = getattr(aobj, 'export', None)
    if export is True:   # class level objects are normalised lazily (fixExport on the first copy): not a change of meaning
        export = 'auto'
    elif isinstance(export, str) and export.lstrip('_') == getattr(aobj, 'name', None):
        export = 'auto'
    return (exp, verdicts, repr(export), bool(getattr(aobj, 'optional', False)))


def snap_class(cls):
    if not hasattr(cls, 'accessibles'):
        return {k: repr(v)[:80] for k, v in cls.__dict__.items() if not k.startswith('__')}
    res = {n: snap_acc(a) for n, a in cls.accessibles.items()}
    po = getattr(cls, 'propertyDict', {}).get('chan')
    if po is not None:
        res['$chan'] = (repr(po.value), repr(po.default))
    return res


def snap_inst(inst):
    res = {n: snap_acc(a) + (repr(rm.canon(getattr(a, 'value', None))),) for n, a in inst.accessibles.items()}
    res['$props'] = json.dumps(inst.exportProperties(), sort_keys=True, default=repr)
    res['$chan'] = repr(getattr(inst, 'chan', None))
    return res


def fresh_snap(world, cname):
    cls = world.classes[cname]
    if not hasattr(cls, 'accessibles'):
        return None
    try:
        return snap_inst(cls('fresh', world.log, {'description': 'fresh'}, world.srv))
    except Exception as e:   # noqa
        return f'{type(e).__name__}: {e}'[:200]


def owned_objects(inst):
    res = []
    for a in inst.accessibles.values():
        res.append(a)
        for attr in ('datatype', 'argument', 'result'):
            dt = getattr(a, attr, None)
            if dt is not None:
                res.extend(walk_dt(dt))
    return res


def walk_dt(dt):
    from vf.checks.c03 import walk
    return walk(dt)


def all_snaps(world):
    res = {}
    for n, c in world.classes.items():
        res[('class', n)] = snap_class(c)
        res[('fresh', n)] = fresh_snap(world, n)
    for n, i in world.instances.items():
        res[('inst', n)] = snap_inst(i)
    return res


def touched(step, prog):
    """names whose snapshot a step may legitimately change"""
    if step['op'] == 'define':
        return {('class', step['cls']), ('fresh', step['cls'])}
    return {('inst', step['inst'])}


def execute(ctx, prog, steps, tag):
    world = World(prog, tag)
    before = {}
    for i, step in enumerate(steps):
        ctx.ev()
        try:
            world.run_step(step)
        except Exception as e:   # noqa - a program that frappy refuses (e.g. override not fitting the datatype): not a case
            ctx.label(f'program-refused:{type(e).__name__}')
            if step['op'] == 'define' and isinstance(e, (AttributeError, KeyError, IndexError, NameError)):
                # ... but a legal class body must not make the class machinery itself fall over
                ctx.finding(f'define:crash:{type(e).__name__}', dict(prog, steps=steps[:i + 1], order=[]), f'{step!r}: {e!r}'[:300])
            return None
        if step['op'] == 'define' and step['cls'] in world.classes and hasattr(world.classes[step['cls']], 'accessibles'):
            # a command overridden by a plain method inherits the properties (here: the group of the root command),
            # one overridden with Command(inherit=False) starts from the defaults
            want, byname = 'g0', {c['name']: c for c in prog['classes']}
            for cname in reversed(chain_list(prog, step['cls'])):
                if byname[cname].get('overrides', {}).get('cmd', {}).get('kind') == 'cmd-inherit-false':
                    want = ''
            cobj = world.classes[step['cls']].accessibles.get('cmd')
            if cobj is not None and cobj.group != want:
                ctx.finding('command-inherit:' + ('inherited-although-inherit-false' if want == '' else 'not-inherited'),
                            dict(prog, steps=steps[:i + 1], order=[]), f'{step["cls"]}.cmd.group = {cobj.group!r}, expected {want!r}')
            else:
                ctx.ok('command-inheritance')
        if step['op'] == 'define' and step['cls'] in world.classes and hasattr(world.classes[step['cls']], 'accessibles'):
            # a command with a struct argument overridden by a plain method: the optional members are the arguments of the
            # (nearest) overriding method which have defaults - in the class and in every instance made from it
            byname = {c['name']: c for c in prog['classes']}
            want = ['b']      # root: def cmd2(self, a, b=1)
            for cname in reversed(chain_list(prog, step['cls'])):
                o = byname[cname].get('overrides', {}).get('cmd2')
                if o and o.get('kind') in ('method2', 'redecorated'):
                    want = {'a': ['a'], 'ab': ['a', 'b'], '': []}.get(o.get('defaults'), want)
            cls_ = world.classes[step['cls']]
            got_cls = sorted(cls_.accessibles['cmd2'].argument.optional) if 'cmd2' in cls_.accessibles else None
            got_inst = None
            if got_cls is not None:
                try:
                    inst = cls_('probe', world.log, {'description': 'probe'}, world.srv)
                    got_inst = sorted(inst.accessibles['cmd2'].for_export()['datainfo']['argument'].get('optional', sorted(inst.accessibles['cmd2'].argument.members)))
                except Exception as e:   # noqa
                    got_inst = f'{type(e).__name__}: {e}'
            if isinstance(got_inst, str):
                ctx.label('command-override:instance-refused')      # (the class can not be instantiated for other reasons)
            elif got_cls is not None and (got_cls != want or got_inst != want):
                ctx.finding('command-override:optional-arguments-' + ('of-instance' if got_cls == want else 'of-class'),
                            dict(prog, steps=steps[:i + 1], order=[]), f'{step["cls"]}.cmd2: class {got_cls!r}, instance {got_inst!r}, expected {want!r}')
            elif got_cls is not None:
                ctx.ok('command-override-optional')
        after = all_snaps(world)
        allowed = touched(step, prog)
        for key, snap in before.items():
            if key in allowed:
                continue
            if after.get(key) != snap:
                what = diff_names(snap, after.get(key))
                sub = dict(prog, steps=steps[:i + 1], order=[])
                ctx.finding(f'leak:{step["op"]}{":" + step.get("kind", "") if step["op"] == "mutate" else ""}->{key[0]}', sub,
                            f'step {step!r} changed {key!r}: {what}')
            else:
                ctx.ok('others-unchanged')
        before = after
    # no Parameter / DataType / Enum object is reachable from two instances or from an instance and a class
    owners = {}
    for n, inst in world.instances.items():
        for o in owned_objects(inst):
            if id(o) in owners and owners[id(o)] != ('inst', n):
                ctx.finding(f'shared-object:{type(o).__name__}:inst-inst', dict(prog, order=[]), f'{owners[id(o)]} and inst {n}')
            owners[id(o)] = ('inst', n)
    for n, c in world.classes.items():
        if not hasattr(c, 'accessibles'):
            continue
        for a in c.accessibles.values():
            objs = [a] + [d for attr in ('datatype', 'argument', 'result') if getattr(a, attr, None) is not None for d in walk_dt(getattr(a, attr))]
            for o in objs:
                if owners.get(id(o), ('class',))[0] == 'inst':
                    ctx.finding(f'shared-object:{type(o).__name__}:inst-class', dict(prog, order=[]), f'{owners[id(o)]} and class {n}')
    ctx.ok('no-shared-objects')
    return before


def diff_names(a, b):
    if not isinstance(a, dict) or not isinstance(b, dict):
        return f'{a!r} -> {b!r}'[:300]
    names = sorted(n for n in set(a) | set(b) if a.get(n) != b.get(n))
    if not names:
        return 'no difference'
    n = names[0]
    return f'{n}: {a.get(n)!r} -> {b.get(n)!r}'[:400]


def chain(prog, cname):
    """names of the classes (and the mixin) a class is built from, itself included"""
    bases = {c['name']: c['bases'] for c in prog['classes']}
    res, stack = set(), [cname]
    while stack:
        cur = stack.pop()
        if cur not in res:
            res.add(cur)
            stack.extend(bases.get(cur, []))
    return res


def chain_list(prog, cname):
    """the class and its ancestors among the classes of the program, leaf first (the mixin carries no command)"""
    byname = {c['name']: c for c in prog['classes']}
    out = []
    while cname in byname and cname not in out:
        out.append(cname)
        cname = byname[cname]['bases'][-1] if byname[cname]['bases'] else None
    return out


def permute(steps, order, prog):
    """dependency respecting permutation driven by the drawn priorities"""
    bases_of = {c['name']: c['bases'] for c in prog['classes']}
    prio = list(order) + [0] * len(steps)
    done, out = set(), []
    remaining = list(range(len(steps)))

    def ready(i):
        s = steps[i]
        if s['op'] == 'define':    # bases first, siblings in any order
            return all(j in done for j in range(len(steps)) if steps[j]['op'] == 'define' and steps[j]['cls'] in bases_of.get(s['cls'], ()))
        if s['op'] == 'create':
            return any(j in done and steps[j]['op'] == 'define' and steps[j]['cls'] == s['cls'] for j in range(len(steps)))
        return all(j in done for j in range(i) if steps[j].get('inst') == s['inst'])
    while remaining:
        cand = [i for i in remaining if ready(i)]
        i = min(cand, key=lambda k: (prio[k], k))
        out.append(steps[i])
        done.add(i)
        remaining.remove(i)
    return out


def valid_program(prog):
    try:
        names = [c['name'] for c in prog['classes']]
        for i, c in enumerate(prog['classes'][1:], 1):
            if not c['bases'] or c['bases'][-1] not in names[:i] or (len(c['bases']) > 1 and (c['bases'][:-1] != ['Mix'] or not prog['mixin'])):
                return False
        names_of = {}
        for c in prog['classes'][1:] + ([prog['mixin']] if prog.get('mixin') else []):
            for pn, o in c['overrides'].items():
                if o.get('shared'):
                    names_of.setdefault(o['shared'], set()).add(pn)
                    if o.get('kind') != 'partial':
                        return False
        if any(len(v) > 1 for v in names_of.values()):
            return False
        defined = [s['cls'] for s in prog['steps'] if s['op'] == 'define']
        if ('Z' in defined) != bool(prog.get('unrelated')):
            return False
        return all(n in defined for n in names) and (not prog['mixin'] or 'Mix' in defined) and not prog['classes'][0]['bases']
    except (KeyError, TypeError, IndexError):
        return False


def mixin_shared_check(ctx, prog):
    """one override object in the body of a plain mixin (not a module class) and of a class outside the mixin's family: the
    classes built with the mixin must not depend on that other class being defined (one dedicated oracle and signature, the
    generic ones would report the same thing under several names)"""
    steps = [s for s in prog['steps'] if s['op'] == 'define']
    ctx.ev()
    world = World(prog, 'a')
    try:
        for s_ in steps:
            world.run_step(s_)
    except Exception as e:   # noqa
        ctx.label(f'program-refused:{type(e).__name__}')
        return
    for c in prog['classes'][1:]:
        if 'Mix' not in chain(prog, c['name']):
            continue
        members = chain(prog, c['name'])
        alone = World(prog, 'alone')
        try:
            for s_ in steps:
                if s_['cls'] in members:
                    alone.run_step(s_)
        except Exception as e:   # noqa
            ctx.label(f'program-refused:{type(e).__name__}')
            return
        sa, sw = snap_class(alone.classes[c['name']]), snap_class(world.classes[c['name']])
        fa, fw = fresh_snap(alone, c['name']), fresh_snap(world, c['name'])
        if sa != sw or fa != fw:
            what = diff_names(sa, sw) if sa != sw else (diff_names(fa, fw) if isinstance(fa, dict) and isinstance(fw, dict) else f'{fa!r} vs {fw!r}'[:300])
            ctx.finding('shared-with-plain-mixin:class-depends-on-other-classes', dict(prog, steps=steps, order=[]),
                        f'{c["name"]} (built with the mixin) differs when the other user of the override object is defined too: {what}')
            return
    ctx.ok('mixin-shared-object')


def check_program(ctx, prog):
    if not valid_program(prog):
        return
    steps = prog['steps']
    classes_over = {}
    for c in prog['classes'][1:]:
        for pn in c['overrides']:
            classes_over.setdefault(pn, set()).add(c['name'])
    if any(len(v) >= 1 for v in classes_over.values()) and any(s['op'] == 'mutate' or s.get('cfg') for s in steps):
        ctx.nt(json.dumps(prog, sort_keys=True, default=repr))
    for s in steps:
        ctx.label(f'step:{s["op"]}' + (f':{s["kind"]}' if s['op'] == 'mutate' else ''))
    for c in prog['classes'][1:]:
        ctx.label('mi' if len(c['bases']) > 1 else 'si')
        for o in c['overrides'].values():
            ctx.label(f'override:{o["kind"]}')
    ctx.sample({'classes': prog['classes'], 'mixin': prog['mixin'], 'steps': steps}, every=97)
    if prog.get('mixin') and any(o.get('shared') for o in prog['mixin']['overrides'].values()):
        mixin_shared_check(ctx, prog)
        return
    final1 = execute(ctx, prog, steps, 'a')
    if final1 is None:
        return
    # a class is a function of its own chain: define the chain alone, in a fresh world, and compare
    for c in prog['classes'][1:]:
        members = chain(prog, c['name'])
        alone = [s for s in steps if s['op'] == 'define' and s['cls'] in members]
        if len(alone) == sum(1 for s in steps if s['op'] == 'define'):
            continue
        ctx.ev()
        world = World(prog, 'alone')
        try:
            for s in alone:
                world.run_step(s)
        except Exception as e:   # noqa
            ctx.finding('chain:refused-when-defined-alone', dict(prog, steps=[s for s in steps if s['op'] == 'define'], order=[]),
                        f'{c["name"]}: {type(e).__name__}: {e}'[:300])
            continue
        for key, snap in ((('class', c['name']), snap_class(world.classes[c['name']])), (('fresh', c['name']), fresh_snap(world, c['name']))):
            if snap != final1.get(key):
                ctx.finding(f'chain:{key[0]}-depends-on-other-classes', dict(prog, steps=[s for s in steps if s['op'] == 'define'], order=[]),
                            f'{c["name"]} defined with only its own bases differs: {diff_names(snap, final1.get(key))}')
            else:
                ctx.ok('class-function-of-own-chain')
    steps2 = permute(steps, prog.get('order') or [], prog)
    if steps2 == steps:
        ctx.label('permutation:identity')
        return
    ctx.label('permutation:other')
    final2 = execute(ctx, prog, steps2, 'b')
    if final2 is None:
        ctx.finding('order:program-refused-in-other-order', dict(prog), '')
        return
    for key in final1:
        if final1[key] != final2.get(key):
            ctx.finding(f'order:{key[0]}-depends-on-order', prog, f'{key!r}: {diff_names(final1[key], final2.get(key))}')
        else:
            ctx.ok('order-independent')


def run_shard(ctx, shard):
    drive(program(), lambda case: check_program(ctx, case), shard['n'], ctx.seed * 1000 + shard['idx'])


def run_case(ctx, case):
    check_program(ctx, case)
