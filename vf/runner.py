"""runner: seeds, tiers, sharding, finding buckets, shrinking, evidence, exit codes

exit codes: 0 = property held on everything explored (known findings are printed)
            1 = violation (a line 'VIOLATION property=<id> replay=<path>' per new bucket)
            2 = harness error / inconclusive (never a verdict about frappy)
"""
import os
import sys
import json
import time
import glob
import traceback
import importlib
import multiprocessing
from collections import Counter

VERIF = os.path.dirname(os.path.dirname(os.path.abspath(__file__)))
REPO = os.environ.get('VERIF_REPO', '/repo')
NPROC = min(16, os.cpu_count() or 1)
MAX_SAMPLES = 8


def setup_repo():
    """make the code under test importable from the working tree, never write into it"""
    sys.dont_write_bytecode = True
    if REPO not in sys.path:
        sys.path.insert(0, REPO)
    deps = os.path.join(VERIF, '.deps')
    if os.path.isdir(deps) and deps not in sys.path:
        sys.path.append(deps)
    import logging
    logging.disable(logging.CRITICAL)   # frappy logs through mlzlog/logging; keep checks quiet
    # get_version shells out to git and writes RELEASE-VERSION into the package
    import frappy.version
    frappy.version.get_version = lambda *a, **k: 'verif'
    for modname in ('frappy.secnode', 'frappy.protocol.discovery'):
        try:
            mod = importlib.import_module(modname)
            if hasattr(mod, 'get_version'):
                mod.get_version = lambda *a, **k: 'verif'
        except Exception:   # pragma: no cover - reported by the check that needs it
            pass


def jdefault(o):
    if isinstance(o, bytes):
        return {'$hex': o.hex()}
    if isinstance(o, float):
        return repr(o)
    if isinstance(o, (set, frozenset)):
        return sorted(o, key=repr)
    if isinstance(o, tuple):
        return list(o)
    return repr(o)


def jdump(o, **kw):
    return json.dumps(_nonfinite(o), default=jdefault, sort_keys=True, **kw)


def _nonfinite(o):
    """strict JSON for replay/evidence files: non-finite floats are written as {'$f': 'nan'}"""
    if isinstance(o, float) and (o != o or o in (float('inf'), float('-inf'))):
        return {'$f': repr(o)}
    if isinstance(o, dict):
        return {str(k): _nonfinite(v) for k, v in o.items()}
    if isinstance(o, (list, tuple)):
        return [_nonfinite(v) for v in o]
    if isinstance(o, bytes):
        return {'$hex': o.hex()}
    return o


def jrestore(o):
    """inverse of the encodings above"""
    if isinstance(o, dict):
        if set(o) == {'$f'}:
            return float(o['$f'])
        if set(o) == {'$hex'}:
            return bytes.fromhex(o['$hex'])
        return {k: jrestore(v) for k, v in o.items()}
    if isinstance(o, list):
        return [jrestore(v) for v in o]
    return o


def jload(text):
    return jrestore(json.loads(text))


class Ctx:
    """collects what one shard (or one replayed case) did"""

    def __init__(self, prop, tier, seed):
        self.prop = prop
        self.tier = tier
        self.seed = seed
        self.evaluations = 0
        self.labels = Counter()
        self.clauses = Counter()
        self.nontrivial = set()
        self.samples = []
        self.findings = {}
        self.extra = {}
        self._nsample = 0

    def ev(self, n=1):
        self.evaluations += n

    def label(self, *names):
        for n in names:
            self.labels[n] += 1

    def ok(self, clause, n=1):
        self.clauses[clause] += n

    def nt(self, key):
        """register a non-trivial case by a hashable key (PYTHONHASHSEED is pinned)"""
        self.nontrivial.add(hash(key))

    def sample(self, case, every=997):
        self._nsample += 1
        if len(self.samples) < 3 or (self._nsample % every == 0 and len(self.samples) < MAX_SAMPLES):
            self.samples.append(case)

    def finding(self, sig, case, detail=''):
        """a failed oracle clause; sig identifies the bucket (categorical, value free)"""
        sig = f'{self.prop}:{sig}'
        try:
            size = len(jdump(case))
        except Exception:
            size = 1 << 30
        f = self.findings.get(sig)
        if f is None:
            self.findings[sig] = {'count': 1, 'case': case, 'detail': str(detail)[:600], 'size': size}
        else:
            f['count'] += 1
            if size < f['size']:
                f.update(case=case, detail=str(detail)[:600], size=size)

    def state(self):
        return {k: getattr(self, k) for k in
                ('evaluations', 'labels', 'clauses', 'nontrivial', 'samples', 'findings', 'extra')}

    def merge(self, st):
        self.evaluations += st['evaluations']
        self.labels.update(st['labels'])
        self.clauses.update(st['clauses'])
        self.nontrivial |= st['nontrivial']
        for s in st['samples']:
            if len(self.samples) < MAX_SAMPLES:
                self.samples.append(s)
        for sig, f in st['findings'].items():
            g = self.findings.get(sig)
            if g is None:
                self.findings[sig] = dict(f)
            else:
                g['count'] += f['count']
                if f['size'] < g['size']:
                    g.update(case=f['case'], detail=f['detail'], size=f['size'])
        for k, v in st['extra'].items():
            if isinstance(v, (int, float)) and isinstance(self.extra.get(k), (int, float)):
                self.extra[k] += v
            elif isinstance(v, list) and isinstance(self.extra.get(k), list):
                self.extra[k] = (self.extra[k] + v)[:50]
            else:
                self.extra.setdefault(k, v)


def drive(strategy, fn, n, seed):
    """run fn over n generated cases; fn records findings itself and never raises on them"""
    from hypothesis import given, settings, seed as hseed, Phase, HealthCheck

    @hseed(seed)
    @settings(max_examples=n, database=None, deadline=None, derandomize=False,
              phases=[Phase.generate], report_multiple_bugs=False,
              suppress_health_check=[HealthCheck.too_slow, HealthCheck.data_too_large,
                                     HealthCheck.large_base_example])
    @given(strategy)
    def t(case):
        fn(case)
    t()


# ---------------------------------------------------------------------------------------
# known findings

def load_known():
    path = os.path.join(VERIF, 'known_findings.json')
    if not os.path.exists(path):
        return []
    with open(path, encoding='utf-8') as f:
        return json.load(f).get('findings', [])


def known_sigs(prop):
    """signatures that are listed as known (not fixed!) -> description"""
    return {e['signature']: e.get('what', '') for e in load_known()
            if e.get('property') == prop and e.get('status') == 'known'}


# ---------------------------------------------------------------------------------------
# generic shrinking of JSON-able cases

def _candidates(node):
    """smaller variants of one node"""
    if isinstance(node, list):
        n = len(node)
        if n > 3:
            yield node[:n // 2]
            yield node[n // 2:]
        for i in range(n):
            yield node[:i] + node[i + 1:]
        for x in node:   # hoist a child of the same kind
            if isinstance(x, list):
                yield x
    elif isinstance(node, dict):
        for k in list(node):
            if isinstance(node[k], dict) and set(node[k]) & set(node) and 'k' in node[k] and 'k' in node:
                yield node[k]   # hoist nested spec
            if isinstance(node[k], list):
                for x in node[k]:
                    if isinstance(x, dict) and 'k' in x and 'k' in node:
                        yield x
        for k in list(node):
            if k not in ('k', 'kind'):
                d = dict(node)
                del d[k]
                yield d
    elif isinstance(node, bool):
        if node:
            yield False
    elif isinstance(node, int):
        for v in (0, 1, node // 2, -node if node < 0 else None):
            if v is not None and v != node and abs(v) < abs(node) + (v == 0):
                yield v
    elif isinstance(node, float):
        for v in (0.0, 1.0, float(int(node)) if node == node and abs(node) < 1e15 else None):
            if v is not None and v != node:
                yield v
    elif isinstance(node, str):
        if node:
            yield ''
            yield node[:len(node) // 2]
            yield node[1:]
    elif isinstance(node, bytes):
        if node:
            yield b''
            yield node[:len(node) // 2]


def _paths(node, prefix=()):
    yield prefix
    if isinstance(node, list):
        for i, x in enumerate(node):
            yield from _paths(x, prefix + (i,))
    elif isinstance(node, dict):
        for k, x in node.items():
            yield from _paths(x, prefix + (k,))


def _get(node, path):
    for p in path:
        node = node[p]
    return node


def _set(node, path, value):
    if not path:
        return value
    if isinstance(node, list):
        node = list(node)
    else:
        node = dict(node)
    node[path[0]] = _set(node[path[0]], path[1:], value)
    return node


def shrink(case, reproduces, budget_s=15.0):
    """greedy structural shrinking; reproduces(case) -> bool must be exception safe"""
    t0 = time.time()
    best = case
    bestsize = len(jdump(best))
    progress = True
    tried = 0
    while progress and time.time() - t0 < budget_s:
        progress = False
        for path in sorted(_paths(best), key=len):
            try:
                node = _get(best, path)
            except (KeyError, IndexError, TypeError):
                continue
            for cand in _candidates(node):
                if time.time() - t0 > budget_s:
                    break
                new = _set(best, path, cand)
                try:
                    size = len(jdump(new))
                except Exception:
                    continue
                if size >= bestsize:
                    continue
                tried += 1
                if reproduces(new):
                    best, bestsize, progress = new, size, True
                    break
            if progress:
                break
    return best, tried


# ---------------------------------------------------------------------------------------

def _run_shard(args):
    modname, prop, tier, seed, shard = args
    try:
        setup_repo()
        mod = importlib.import_module(modname)
        ctx = Ctx(prop, tier, seed)
        mod.run_shard(ctx, shard)
        return ('ok', ctx.state())
    except BaseException:   # noqa: harness error, reported with traceback, exit 2
        return ('err', f'shard {shard!r}\n{traceback.format_exc()}')


def run_case_safely(mod, prop, tier, seed, case):
    ctx = Ctx(prop, tier, seed)
    mod.run_case(ctx, case)
    return ctx


def main(argv):
    t0 = time.time()
    if len(argv) < 2:
        print('usage: run_check.py Cnn quick|thorough [--replay FILE]')
        return 2
    prop, tier = argv[0].upper(), argv[1]
    replay = None
    if '--replay' in argv:
        replay = argv[argv.index('--replay') + 1]
    seed = int(os.environ.get('VERIF_SEED', '1') or 1)
    modname = f'vf.checks.{prop.lower()}'
    try:
        setup_repo()
        mod = importlib.import_module(modname)
    except Exception:
        traceback.print_exc()
        print(f'HARNESS-ERROR property={prop} cannot import check or code under test')
        return 2
    known = known_sigs(prop)
    level = getattr(mod, 'LEVEL', 'exploration')

    if replay:
        with open(replay, encoding='utf-8') as f:
            rec = jload(f.read())
        try:
            ctx = run_case_safely(mod, prop, tier, seed, rec['case'])
        except Exception:
            traceback.print_exc()
            return 2
        rc = 0
        for sig, f in sorted(ctx.findings.items()):
            if sig in known:
                print(f'KNOWN-FINDING: property={prop} {sig} {known[sig]}')
            else:
                print(f'VIOLATION property={prop} replay={replay}')
                print(f'  signature: {sig}\n  detail: {f["detail"]}')
                rc = 1
        if not ctx.findings:
            print(f'replay of {replay}: no finding')
        return rc

    total = Ctx(prop, tier, seed)
    # 1. corpus (saved cases, replayed without the generators)
    ncorpus = 0
    for path in sorted(glob.glob(os.path.join(VERIF, 'corpus', prop, '*.json'))):
        with open(path, encoding='utf-8') as f:
            rec = jload(f.read())
        try:
            ctx = run_case_safely(mod, prop, tier, seed, rec['case'])
        except Exception:
            traceback.print_exc()
            print(f'HARNESS-ERROR property={prop} corpus case {path}')
            return 2
        total.merge(ctx.state())
        ncorpus += 1
    # 2. generated / enumerated shards
    shards = mod.shards(tier, seed)
    jobs = [(modname, prop, tier, seed, s) for s in shards]
    timeout = getattr(mod, 'WATCHDOG', {}).get(tier, 900 if tier == 'quick' else 7200)
    if getattr(mod, 'INPROCESS', False) or NPROC == 1:
        results = [_run_shard(j) for j in jobs]
    else:
        mpctx = multiprocessing.get_context(getattr(mod, 'MPCONTEXT', 'fork'))
        with mpctx.Pool(min(NPROC, max(1, len(jobs))), maxtasksperchild=getattr(mod, 'MAXTASKS', None)) as pool:
            ar = pool.map_async(_run_shard, jobs, chunksize=1)
            try:
                results = ar.get(timeout)
            except multiprocessing.TimeoutError:
                pool.terminate()
                print(f'INCONCLUSIVE property={prop} watchdog: shards did not finish within {timeout}s')
                return 2
    errs = [r[1] for r in results if r[0] == 'err']
    if errs:
        print(errs[0])
        print(f'HARNESS-ERROR property={prop} {len(errs)} shard(s) failed')
        return 2
    for r in results:
        total.merge(r[1])

    # 3. triage
    rc = 0
    known_hits = {}
    violations = []
    repdir = os.path.join(os.environ['VERIF_EVIDENCE_DIR'], 'replays') if os.environ.get('VERIF_EVIDENCE_DIR') else os.path.join(VERIF, 'replays')
    os.makedirs(repdir, exist_ok=True)
    for old in glob.glob(os.path.join(repdir, f'{prop}_*.json')):
        os.remove(old)     # replays of earlier runs of this property are stale
    for sig, f in sorted(total.findings.items()):
        if sig in known:
            known_hits[sig] = f['count']
            print(f'KNOWN-FINDING: property={prop} {sig} ({f["count"]} hits) {known[sig]}')
            continue
        case = f['case']

        def reproduces(c, sig=sig):
            try:
                return sig in run_case_safely(mod, prop, tier, seed, c).findings
            except Exception:
                return False
        shrunk, tried = case, 0
        if reproduces(case) and getattr(mod, 'SHRINK', True):
            shrunk, tried = shrink(case, reproduces, 10.0 if tier == 'quick' else 40.0)
        detail = f['detail']
        try:
            detail = run_case_safely(mod, prop, tier, seed, shrunk).findings[sig]['detail']
        except Exception:
            pass
        fname = ''.join(c if c.isalnum() or c in '-_.' else '_' for c in sig)[:120]
        path = os.path.join(repdir, f'{fname}.json')
        with open(path, 'w', encoding='utf-8') as fp:
            fp.write(jdump({'property': prop, 'signature': sig, 'case': shrunk, 'detail': detail,
                            'hits': f['count'], 'shrink_attempts': tried, 'seed': seed, 'tier': tier}, indent=1))
        violations.append(sig)
        print(f'VIOLATION property={prop} replay={path}')
        print(f'  signature: {sig} ({f["count"]} hits)\n  detail: {detail}')
        rc = 1

    # 4. evidence
    wall = time.time() - t0
    cov = {
        'evaluations': total.evaluations,
        'distinct_nontrivial': len(total.nontrivial),
        'rule': getattr(mod, 'RULE', ''),
        'samples': total.samples[:MAX_SAMPLES],
        'labels': dict(sorted(total.labels.items())),
        'clause_passes': dict(sorted(total.clauses.items())),
        'known_finding_hits': known_hits,
        'corpus_cases_replayed': ncorpus,
        'shards': len(shards),
        'exhaustive': bool(total.extra.pop('exhaustive', False)),
    }
    cov.update(total.extra)
    ev = {
        'property_id': prop, 'tier': tier, 'seed': seed, 'level': level,
        'coverage': cov,
        'assumptions': list(getattr(mod, 'ASSUMPTIONS', [])),
        'wall_s': round(wall, 2),
        'violations': len(violations),
    }
    evdir = os.environ.get('VERIF_EVIDENCE_DIR') or os.path.join(VERIF, 'evidence')
    os.makedirs(evdir, exist_ok=True)
    with open(os.path.join(evdir, f'{prop}.json'), 'w', encoding='utf-8') as fp:
        fp.write(jdump(ev, indent=1))
    print(f'{prop} {tier} seed={seed}: evaluations={total.evaluations} '
          f'distinct_nontrivial={len(total.nontrivial)} known_hits={sum(known_hits.values())} '
          f'violations={len(violations)} wall={wall:.1f}s')
    if total.evaluations < 1 or len(total.nontrivial) < 2:
        print(f'HARNESS-ERROR property={prop} vacuous run (no non-trivial cases)')
        return 2
    return rc
